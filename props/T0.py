def obligations(tier):
    return [dict(name='t0', src='t_wfcq0.c', nslots=4, pre=['prologue'], post=['epilogue'],
                 plain=[('prologue', 0), ('epilogue', 0)],
                 threads=[dict(fn='thr_enq0', slot=1), dict(fn='thr_enq1', slot=2), dict(fn='thr_deq', slot=3)],
                 rounds=3, unwind=4, desc='smoke', bounds=dict(R=3, U=4))]
