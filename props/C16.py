CLAIM = False
NA_REASON = ('not decided: fork() needs a runtime primitive with two continuations (parent / child with every other thread deleted at an arbitrary point, '
             'inherited mutex and queue state) on top of the call_rcu helper encoding; the helper encoding alone (C03) is at the edge of the solver budget, '
             'so no obligation for the atfork handlers was built - no check is claimed rather than a weaker technique substituted')


def obligations(tier):
    return []
