CLAIM = True
from props.common import progress

WF = ['-DURCU_VERIF_WFCQ_ADAPT_ATTEMPTS=2', '-DURCU_VERIF_CDS_WFS_ADAPT_ATTEMPTS=2']


def obligations(tier):
    q = tier == 'quick'
    R = 2 if q else 3
    obs = []
    # wait-free
    obs += progress('wf_wfcq_enqueue', 'c10_wfcq.c', ['p1', 'p2', 'c1'], R, ['p1', 'p2'], cflags=['-DSCEN=1', '-DDEQ=0'] + WF,
                    desc='cds_wfcq_enqueue (x2, x1) completes and never waits, with the other enqueuer and a blocking dequeuer suspended anywhere')
    obs += progress('wf_wfs_push', 'c11_stack.c', ['p1', 'p2', 'c1'], R, ['p1', 'p2'], cflags=['-DKIND=0', '-DSCEN=1', '-DPOP=0'] + WF,
                    desc='cds_wfs_push completes and never waits, other pusher and a blocking popper suspended anywhere')
    obs += progress('wf_wfs_pop_all', 'c11_stack.c', ['p1', 'p2', 'c1'], R, ['c1'], cflags=['-DKIND=0', '-DSCEN=6', '-DPOP=0'] + WF,
                    desc='__cds_wfs_pop_all completes and never waits with pushers suspended between head exchange and next-pointer store')
    obs += progress('wf_lfs_pop_all', 'c11_stack.c', ['p1', 'p2', 'c1'], R, ['c1'], cflags=['-DKIND=1', '-DSCEN=6', '-DPOP=0'] + WF,
                    desc='__cds_lfs_pop_all completes and never waits with pushers suspended')
    # lock-free: solo completion from every reachable state (no waiting on a suspended thread)
    obs += progress('lf_lfs_push', 'c11_stack.c', ['p1', 'p2', 'c1'], R, ['p1'], cflags=['-DKIND=1', '-DSCEN=1', '-DPOP=0'] + WF,
                    desc='cds_lfs_push x2 completes when run alone, other pusher and popper suspended anywhere')
    obs += progress('lf_lfs_pop', 'c11_stack.c', ['p1', 'p2', 'c1'], R, ['c1'], cflags=['-DKIND=1', '-DSCEN=1', '-DPOP=0'] + WF,
                    desc='__cds_lfs_pop x2 completes when run alone, pushers suspended anywhere')
    # non-blocking variants never wait
    obs += progress('nb_wfcq_dequeue', 'c10_wfcq.c', ['p1', 'p2', 'c1'], R, ['c1'], cflags=['-DSCEN=1', '-DDEQ=1'] + WF,
                    desc='__cds_wfcq_dequeue_nonblocking x2 returns without waiting, enqueuers suspended between tail exchange and link store')
    obs += progress('nb_wfcq_splice_first_next', 'c10_wfcq.c', ['p1', 'p2', 'c1'], R, ['c1'], cflags=['-DSCEN=6', '-DDEQ=1'] + WF,
                    desc='__cds_wfcq_splice_nonblocking, __cds_wfcq_first_nonblocking, __cds_wfcq_next_nonblocking return without waiting, enqueuers suspended anywhere')
    obs += progress('nb_wfs_pop', 'c11_stack.c', ['p1', 'p2', 'c1'], R, ['c1'], cflags=['-DKIND=0', '-DSCEN=1', '-DPOP=1'] + WF,
                    desc='__cds_wfs_pop_nonblocking x2 returns without waiting, pushers suspended anywhere')
    obs += progress('nb_wfs_first_next', 'c11_stack.c', ['p1', 'p2', 'c1'], R, ['c1'], cflags=['-DKIND=0', '-DSCEN=9', '-DPOP=0'] + WF,
                    desc='__cds_wfs_pop_all, cds_wfs_first, cds_wfs_next_nonblocking x3 return without waiting, pushers suspended between head exchange and next-pointer store')
    return obs


EXPLANATION = 'C17: progress guarantees (wait-free / lock-free / non-blocking never wait on suspended threads)'
OUTSIDE = 'prefixes longer than R rounds; hash-table and rculfqueue operations and read-side lock/unlock are covered by obligations named lf_lfq_*, wf_read_* , lf_lfht_* when present in this tier'
ASSUMPTIONS = ['waiting = executing a busy-wait hint (rep;nop / poll) or blocking in a primitive; a loop of the tested operation that iterates more often than the unwinding bound inside one uninterrupted turn is reported (unwinding assertion restricted to the tested thread) and confirmed by a native run that does not terminate']
LEVEL_TEXT = ('Bounded model checking: a symbolic prefix of R rounds suspends every thread at an arbitrary instruction; then only the operation under test runs; assert completion and '
              '(wait-free / non-blocking) that no busy-wait hint or blocking primitive was ever executed by it.')
LEVEL_NOTE = 'Trusted: clang-14 lowering, irseq translator, asm table, scheduler runtime, CBMC/MiniSat.'
