CLAIM = False

HOOKS = ['-DURCU_VERIF_RCU_QS_ACTIVE_ATTEMPTS=2', '-DURCU_VERIF_URCU_WAIT_ATTEMPTS=1']
STUBS = {'urcu_mb_synchronize_rcu': 'my_sync', 'set_thread_cpu_affinity': 'my_affinity'}
TSTUBS = dict(STUBS, urcu_mb_get_default_call_rcu_data='my_get_default')


def cr(name, scen, threads, R, helper_slot, user_slots, tso=0, desc='', wit=None, unwind=3, timeout=1500):
    ths = [dict(fn=f, slot=i + 1) for i, f in enumerate(threads)]
    ths.append(dict(fn='call_rcu_thread', slot=helper_slot, dyn='pthread_create', active=False))
    return dict(name=name, src='c03_callrcu.c', cflags=['-DSCEN=%d' % scen] + HOOKS, nslots=helper_slot + 1, pre=[('mkhelper', 1)], post=['epilogue'],
                plain=[('mkhelper', 1), ('epilogue', 0)], threads=ths, rounds=R, unwind=unwind, tso=tso, timeout=timeout, mem_gb=16, stub_map=TSTUBS,
                indirect_only={'call_rcu_thread': ['cb', '_rcu_barrier_complete']}, unwind_fn={'^F0_': 6},
                solo=dict(slots=user_slots + [helper_slot] + user_slots + [helper_slot, helper_slot], turns=1),
                require_done='assert_idle', done_slots=user_slots, idle_slots=[helper_slot], rt_defines={'RT_NGHOST': 64},
                witnesses=['end of harness reachable'] + list(wit or []), desc=desc,
                bounds=dict(T=len(threads) + 1, R=R, U=unwind, B=tso, helper='default call_rcu helper created by the library'))


def obligations(tier):
    q = tier == 'quick'
    R = 3
    obs = []
    obs.append(cr('default_helper_2enq', 1, ['e1', 'e2', 'reader2'], R, 4, [1, 2, 3],
                  desc='2 enqueuers (3 callbacks) + reader + the default helper (created by the library in a sequential prologue): each callback exactly once, after the reader section '
                       'open at its call_rcu has ended; helper ends parked in futex wait; no callback left behind'))
    return obs


EXPLANATION = 'C03: call_rcu callbacks run exactly once after a grace period'
OUTSIDE = 'per-CPU / per-thread helpers, call_rcu_data_free hand-over, RT (polling) helpers, other flavors, >3 callbacks'
ASSUMPTIONS = ['synchronize_rcu replaced by the C01 contract stub (blocks until the ghost reader section open at call time is closed)',
               'set_thread_cpu_affinity stubbed (no affinity)']
LEVEL_TEXT = 'Bounded model checking of the real call_rcu / call_rcu_thread / wake-up handshake over all interleavings within R rounds plus a solo completion phase.'
LEVEL_NOTE = 'Trusted: clang-14 lowering, irseq translator, asm table, futex/mutex/pthread_create stubs, C01 contract, CBMC/MiniSat.'
NA_REASON = ('not decided: harness/c03_callrcu.c encodes the real call_rcu helper thread (137 visible steps: wfcq splice, futex sleep/wake, grace period through the C01 contract stub) '
             'next to two enqueuers and a reader; symbolic execution of that encoding alone exceeded 25 minutes (points-to guard and query both timed out at 1500 s), so there is no '
             'verdict on the unchanged tree and nothing is claimed; the queue underneath (wfcqueue) is covered by C10')
