CLAIM = False
NA_REASON = ('not decided: rcu_barrier() runs on top of the call_rcu helper encoding (completion object, per-helper marker callbacks, futex handshake); the harness '
             '(harness/c03_callrcu.c SCEN=2) exists but gives no verdict within the caps, so the property is not claimed')


def obligations(tier):
    return []
