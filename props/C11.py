CLAIM = True
from props.common import conc

CF = ['-DURCU_VERIF_CDS_WFS_ADAPT_ATTEMPTS=2']


def ob(name, kind, scen, pop, threads, R, tso=0, desc='', wit=None, extra_cf=(), pre=('prologue',), post=('epilogue',), live=True):
    return conc(name, 'c11_stack.c', threads, R, cflags=['-DKIND=%d' % kind, '-DSCEN=%d' % scen, '-DPOP=%d' % pop] + CF + list(extra_cf),
                tso=tso, desc=desc, wit=wit, pre=pre, post=post, live=live, post_unwind=20, extra={'mem_gb': 8})


def obligations(tier):
    q = tier == 'quick'
    R = 3 if q else 4
    obs = []
    for k, kn in {0: 'blocking', 1: 'nonblocking', 2: 'with_state_blocking', 3: 'with_state_nonblocking'}.items():
        obs += ob('wfs_pop_%s' % kn, 0, 1, k, ['p1', 'p2', 'c1'], R,
                  desc='wfstack: 2 pushers (3 pushes) vs single consumer 2 x __cds_wfs_pop_%s then drain: LIFO oracle, conservation, '
                       'push result, WOULDBLOCK/LAST clauses' % kn,
                  wit=['consumer popped two nodes concurrently with the pushers', 'consumer saw an empty stack'] +
                      (['pop reported STATE_LAST', 'pop without STATE_LAST'] if k in (2, 3) else []))
    obs += ob('wfs_pop_all_iter', 0, 2, 0, ['p1', 'p2', 'c1'], R,
              desc='wfstack: pop then __cds_wfs_pop_all + cds_wfs_for_each_blocking racing incomplete pushes (iteration must wait, not run past)',
              wit=['pop_all returned two nodes', 'pop_all returned an empty list'])
    obs += ob('wfs_pop_all_iter_nonblocking', 0, 8, 0, ['p1', 'p2', 'c1'], R,
              desc='wfstack: __cds_wfs_pop_all + cds_wfs_first / cds_wfs_next_nonblocking racing incomplete pushes: WOULDBLOCK only for an in-flight push, '
                   'retried, the walk still visits every node of the list once in LIFO order (conservation after drain)',
              wit=['non-blocking walk visited three nodes', 'non-blocking iteration reported WOULDBLOCK'])
    obs += ob('wfs_mutex_pop_vs_pop_all', 0, 3, 4, ['p1', 'p2', 'c1', 'c2'], R,
              desc='wfstack: cds_wfs_pop_blocking vs cds_wfs_pop_all_blocking (mutex-protected) with 2 pushers',
              wit=['locked pop_all returned at least two nodes'])
    obs += ob('wfs_empty_observer', 0, 4, 0, ['p1', 'c1', 'c2'], R, desc='wfstack: cds_wfs_empty() observer',
              wit=['empty() observed a non-empty stack'])
    obs += ob('lfs_pop_single_consumer', 1, 1, 0, ['p1', 'p2', 'c1'], R,
              desc='lfstack: 2 pushers (cmpxchg retry loops) vs single consumer 2 x __cds_lfs_pop then drain',
              wit=['consumer popped two nodes concurrently with the pushers', 'consumer saw an empty stack'])
    obs += ob('lfs_pop_all', 1, 2, 0, ['p1', 'p2', 'c1'], R, desc='lfstack: pop then __cds_lfs_pop_all + cds_lfs_for_each',
              wit=['pop_all returned two nodes', 'pop_all returned an empty list'])
    obs += ob('lfs_mutex_pop_vs_pop_all', 1, 3, 4, ['p1', 'p2', 'c1', 'c2'], R,
              desc='lfstack: cds_lfs_pop_blocking vs cds_lfs_pop_all_blocking (mutex-protected) with 2 pushers',
              wit=['locked pop_all returned at least two nodes'])
    obs += ob('lfs_empty_observer', 1, 4, 0, ['p1', 'c1', 'c2'], R, desc='lfstack: cds_lfs_empty() observer',
              wit=['empty() observed a non-empty stack'])
    obs += ob('lfs_mutex_pop_vs_pop_all_repush', 1, 7, 4, ['c1', 'c2'], R + 1, pre=('pro7',), post=('epi7',),
              desc='lfstack mutex scheme: cds_lfs_pop_blocking vs cds_lfs_pop_all_blocking followed by an immediate re-push of the former top node: '
                   'no node lost or returned twice (the pop mutex is what excludes the ABA)',
              wit=['former top node pushed back right after pop_all'])
    obs += ob('lfs_aba_with_grace_period', 1, 5, 0, ['c1', 'c2'], R + 1, extra_cf=['-DGP=1'], pre=('pro5',), post=('epi5',),
              desc='lfstack ABA: unprotected-by-mutex popper inside a read-side section; recycler pops two nodes and re-pushes the first '
                   'only after a grace period (synchronize_rcu contract stub): no loss, no duplication')
    obs += ob('lfs_aba_twin_no_grace_period', 1, 5, 0, ['c1', 'c2'], R + 1, extra_cf=['-DGP=0'], pre=('pro5',), post=('epi5',), live=False,
              desc='twin: same without the grace period - the ABA corruption must be reachable (oracle sensitivity witness)',
              wit=['ABA corruption reachable when nodes are recycled without a grace period'])
    for B in ((1,) if q else (1, 2)):
        obs += ob('wfs_pop_blocking_tso%d' % B, 0, 1, 0, ['p1', 'p2', 'c1'], 3 if q else 4, tso=B, desc='wfs_pop_blocking under x86-TSO depth %d' % B)
        obs += ob('lfs_pop_tso%d' % B, 1, 1, 0, ['p1', 'p2', 'c1'], 3 if q else 4, tso=B, desc='lfs_pop_single_consumer under x86-TSO depth %d' % B)
    return obs


EXPLANATION = 'C11: wfstack / lfstack LIFO; ABA with and without grace period'
OUTSIDE = 'more than 3 pushes / 2 pushers in the concurrent phase, >R rounds; legacy rculfstack wrappers (same algorithm as lfstack + rcu_read_lock inside pop) not encoded separately'
ASSUMPTIONS = ['LIFO oracle = necessary conditions (VFresh, VRepet, LIFO VOrd, VWit, conservation) on tight stamps',
               'synchronize_rcu contract stub in the ABA obligation: blocks until the reader section open at call time has ended (C01)']
LEVEL_TEXT = ('Bounded model checking of the real wfstack/lfstack inline functions over every interleaving within R rounds of 3-4 threads '
              '(SC and x86-TSO store buffers), with LIFO history oracle, conservation after drain, bounded completion, and an ABA obligation '
              'with its sensitivity twin.')
LEVEL_NOTE = 'Trusted: clang-14 lowering, irseq translator, asm table, TSO model, mutex/poll stubs, CBMC/MiniSat; bounds in evidence.'
