CLAIM = True

STUBS = {'urcu_mb_synchronize_rcu': 'my_sync', 'start_defer_thread': 'my_noop', 'stop_defer_thread': 'my_noop'}


def seq_ob(name, scen, ksteps, qsize, desc, wit):
    return dict(name=name, src='c13_defer_seq.c',
                cflags=['-DSCEN=%d' % scen, '-DKSTEPS=%d' % ksteps, '-DURCU_VERIF_DEFER_QUEUE_SIZE=%d' % qsize],
                nslots=1, pre=['seq'], plain=[('seq', 0)], stub_map=STUBS,
                indirect_hook={'type:void(i8*)': 'cb_log'},
                unwind=max(ksteps, qsize) + 2, unwinding_assertions=True, timeout=1500, mem_gb=16,
                witnesses=['end of harness reachable'] + wit, desc=desc,
                bounds=dict(steps=ksteps, DEFER_QUEUE_SIZE=qsize, fct_arg='all 2^64 x 2^64 patterns per call'))


def obligations(tier):
    q = tier == 'quick'
    obs = []
    K = 6 if q else 7
    obs.append(seq_ob('seq_ops', 1, K, 4 if q else 8,
                      'symbolic sequence of %d operations (defer_rcu with fully symbolic 64-bit function and argument patterns / rcu_defer_barrier_thread / '
                      'rcu_defer_barrier) on a ring of %d entries: wrap-around and the full-queue self-flush are inside the bound' % (K, 4 if q else 8),
                      ['function repeated', 'function with low bit set', 'function equal to the marker value', 'argument with low bit set',
                       'argument equal to the marker value', 'more entries queued than the ring holds (wrap-around)']))
    obs.append(seq_ob('lifecycle', 2, 3, 8, 'register, defer, {barrier | barrier_thread | nothing}, unregister, register again, defer x2, unregister',
                      ['rcu_defer_barrier() before the first unregister']))
    o = seq_ob('reclaimer_pass', 3, 5, 4,   # K=6 not measured: both tiers use the measured bound
               'queuing thread operations (defer_rcu / rcu_defer_barrier_thread) interleaved at operation granularity with passes of the background reclaimer '
               '(wait_defer(); rcu_defer_barrier(), the body of thr_defer): a pass started while calls are pending never parks on its futex and runs all of them',
               ['two reclaimer passes with pending calls', 'calls pending after an earlier reclaimer pass (last_head behind head)'])
    o['stub_map'] = dict(STUBS, pthread_exit='my_exit')
    obs.append(o)
    from props.common import conc
    if not q:          # ~20 min / 8 GB: thorough tier only
      obs += conc('defer_barrier_vs_queuer', 'c13_defer_conc.c', [dict(fn='ta', slot=1), 'tb', 'r1', 'r2'], 3,
                cflags=['-DURCU_VERIF_DEFER_QUEUE_SIZE=8'], pre=[('pro', 1)], post=[('epi', 1)], unwind=4, live=True, timeout=3000,
                desc='queuing thread (2 defer_rcu) vs rcu_defer_barrier() (= what the background reclaimer runs) vs two readers: a call runs once, in order, '
                     'only after the reader sections open at its defer_rcu have ended; everybody finishes',
                wit=['second defer_rcu was called while reader 2 was inside its section'],
                extra={'stub_map': STUBS, 'indirect_hook': {'type:void(i8*)': 'cb_log'}}, nslots=5)
    return obs


EXPLANATION = 'C13: defer_rcu'
OUTSIDE = 'sequences longer than the stated number of steps; ring sizes other than the hook-reduced one (the arithmetic is mask-based and size-independent)'
ASSUMPTIONS = ['synchronize_rcu replaced by a ghost grace-period counter (contract of C01)', 'DEFER_QUEUE_SIZE reduced through the URCU_VERIF hook']
LEVEL_TEXT = ('Bounded model checking of the real defer_rcu / rcu_defer_barrier(_thread) / register / unregister code (mb flavor TU) for every function and argument bit pattern and '
              'every operation sequence within the step bound (sequential, including passes of the background reclaimer - wait_defer(); rcu_defer_barrier() - between operations), plus all interleavings of queuing thread, reclaimer thread and a barrier caller within R rounds.')
LEVEL_NOTE = 'Trusted: clang-14 lowering, irseq translator, asm table, futex/mutex stubs, C01 contract for synchronize_rcu, CBMC/MiniSat.'
