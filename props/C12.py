CLAIM = True
from props.common import conc


EX = {'stub_map': {'malloc': 'my_malloc', 'free': 'my_free'}, 'mem_gb': 20}


def obligations(tier):
    q = tier == 'quick'
    R = 3
    UF = {'^F0_(deq_seq|destroy_seq)$': 5}
    obs = []
    obs += conc('lfq_1thread', 'c12_lfq.c', ['t1'], 1, cflags=['-DSCEN=3'], unwind=3, post_unwind=70, unwind_fn=UF,
                desc='rculfqueue: one thread, 2 enqueues / 3 dequeues, then drain, callbacks, destroy (sequential baseline)',
                wit=['a dummy node was retired through call_rcu'], extra=EX)
    obs += conc('lfq_1thread_leftover', 'c12_lfq.c', ['t1'], 1, cflags=['-DSCEN=4'], unwind=3, post_unwind=70, unwind_fn=UF, live=False,
                desc='rculfqueue: one thread, 2 enqueues / 1 dequeue: destroy refuses the queue whose head is the last user node; then drain, callbacks, destroy',
                wit=['destroy was attempted on a non-empty queue', 'a dummy node was retired through call_rcu'], extra=EX)
    # quick tier: the two-thread safety query (10 min); its bounded-completion twin and the larger ones need 15-50 min: thorough tier
    obs += conc('lfq_2threads', 'c12_lfq.c', ['t1', 't2'], R, cflags=['-DSCEN=2'], unwind=3, post_unwind=70, unwind_fn=UF, live=not q, timeout=2700,
                desc='rculfqueue: 2 threads each enqueue+dequeue: dequeue of the last node forces the dummy swap under contention',
                wit=["thread 1 dequeued the node of the other thread", 'a dummy node was retired through call_rcu'], extra=EX)
    if not q:
        obs += conc('lfq_3threads', 'c12_lfq.c', ['t1', 't2', 't3'], R, cflags=['-DSCEN=1'], unwind=3, post_unwind=70, unwind_fn=UF, timeout=3000,
                    desc='rculfqueue: 3 threads, 3 enqueues / 3 dequeues (Michael-Scott helping + dummy swap), then drain, callbacks, destroy',
                    wit=['a dequeue saw an empty queue', 'one thread dequeued two nodes concurrently with the enqueuers',
                         'a dummy node was retired through call_rcu'], extra=EX)
        obs += conc('lfq_2threads_tso1', 'c12_lfq.c', ['t1', 't2'], R, cflags=['-DSCEN=2'], unwind=3, post_unwind=70, unwind_fn=UF, tso=1, timeout=3000, live=False,
                    desc='lfq_2threads under x86-TSO depth 1', extra=dict(EX, mem_gb=30))
    return obs


EXPLANATION = 'C12: RCU lock-free queue'
OUTSIDE = 'quick tier: one thread, and two threads each doing one enqueue and one dequeue within 3 rounds (safety); the bounded-completion twin of the two-thread query is a thorough-tier obligation (holds in 1596 s); 3 threads and TSO are registered in the thorough tier but gave no verdict inside 900 s / 20 GB; 4 threads; node re-enqueue after a grace period; the real call_rcu (C03) - a harness call_rcu defers callbacks to the end of the run'
ASSUMPTIONS = ['queue_call_rcu = harness stub honouring the call_rcu contract (callback runs once, after all reader sections of the run ended)',
               'malloc/free of dummy nodes backed by a typed static pool with poisoning and single-free check (allocation never fails)']
LEVEL_TEXT = ('Bounded model checking of the real cds_lfq enqueue/dequeue/init/destroy (incl. make_dummy, enqueue_dummy, rcu_free_dummy, free_dummy_cb) over all '
              'interleavings within R rounds of 1-2 threads (3 threads / x86-TSO in the thorough tier); oracle: FIFO bad patterns, conservation, NULL-only-if-empty, no dummy leak, dummy nodes reclaimed only through call_rcu or destroy, '
              'destroy iff empty, dummy pool: freed entries poisoned, double free / wild dereference reported.')
LEVEL_NOTE = 'Trusted: clang-14 lowering, irseq translator, asm table, TSO model, CBMC heap model + MiniSat; bounds in evidence.'
NA_REASON = 'check built but not yet validated on the unchanged tree within the time/memory caps; not claimed'
TECHNIQUE = 'bounded symbolic execution of the real code (LLVM IR -> irseq sequentialisation with symbolic schedules -> CBMC SAT); counterexamples replayed natively'
