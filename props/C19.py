CLAIM = True
from props.C01 import gp


def obligations(tier):
    q = tier == 'quick'
    obs = []
    for fl in (('mb',) if q else ('mb', 'memb')):
        obs += gp('%s_handler_in_reader' % fl, fl, ['updater', 'reader'], 3, handlers=[2],
                  desc='%s: a signal handler with its own read-side section interrupts the reader thread at any scheduling point (inside rcu_read_lock / '
                       'rcu_read_unlock / the section); reader word and rcu_read_ongoing() restored; both sections get the grace-period guarantee' % fl,
                  wit=['signal handler ran', 'handler interrupted an open read-side section'])
    if not q:
        obs += gp('mb_handler_in_updater', 'mb', ['updater', 'reader'], 3, handlers=[1], reg_slots=[1], timeout=4500, mem_gb=20,
                  desc='mb: the handler interrupts the UPDATER thread (registered as a reader) at any scheduling point of its update, including '
                       'inside synchronize_rcu (registry lock held, between the two scans, around the futex wait); same oracles',
                  wit=['signal handler ran'])
    return obs


EXPLANATION = 'C19: read-side critical sections inside signal handlers'
OUTSIDE = 'quick tier: signals on the reader thread only (the thorough tier adds the updater thread, anywhere inside its synchronize_rcu); signals inside call_rcu or on a queued follower, nested signals, bp flavor (encoded, no verdict inside 24 GB), real signal delivery; a signal is delivered at most once per run, at a turn boundary of the interrupted thread (every visible instruction boundary can be one)'
ASSUMPTIONS = ['signal = frame pushed on the interrupted thread at one of its scheduling points, runs to completion on its slot (same TLS, same store buffer) while other threads interleave']
LEVEL_TEXT = 'Bounded model checking of the real read-side primitives interrupted by a handler that uses them, against the C01 oracles and reader-word restoration, all interleavings within R rounds.'
LEVEL_NOTE = 'Trusted: clang-14 lowering, irseq translator, asm table, scheduler/signal model, futex/mutex stubs, CBMC/MiniSat.'
NA_REASON = 'check built but not yet validated on the unchanged tree within the time/memory caps; not claimed'
