CLAIM = True
OPS = ['set', 'read', 'xchg', 'cmpxchg', 'add_return', 'sub_return', 'add', 'sub', 'inc', 'dec', 'and', 'or',
       'addl_return', 'subl_return', 'addu_return', 'subu_return', 'addi_return', 'subi_return', 'addu', 'subu', 'subi', 'xchgi', 'cmpxchgi']


def obligations(tier):
    obs = []
    for cfg, cflags in (('x86asm', []), ('builtins', ['-DCONFIG_RCU_USE_ATOMIC_BUILTINS'])):
        for op in OPS:
            obs.append(dict(name='val_%s_%s' % (cfg, op), src='c20_values.c', cflags=cflags, nslots=1,
                            pre=['all_' + op], plain=[('all_' + op, 0)], unwind=2, unwinding_assertions=True,
                            timeout=300, asm_contract=(cfg == 'x86asm'),
                            desc='uatomic_%s on a symbolic 16-byte image, symbolic aligned slot and operands, '
                                 'widths 1/2/4/8 signed+unsigned, implementation %s' % (op, cfg),
                            bounds=dict(widths=[1, 2, 4, 8], image_bytes=16, operands='all 2^64 patterns', impl=cfg)))
    cfgs = (('x86asm', []), ('builtins', ['-DCONFIG_RCU_USE_ATOMIC_BUILTINS']))
    R = 3 if tier == 'quick' else 4
    for cfg, cflags in cfgs:
        obs.append(dict(name='atom2_%s' % cfg, src='c20_conc.c', cflags=cflags, nslots=3, pre=['b_pro'], post=['b2_epi'],
                        plain=[('b_pro', 0), ('b2_epi', 0)],
                        threads=[dict(fn='b_t1', slot=1), dict(fn='b_t2', slot=2)], rounds=R + 1, unwind=3,
                        desc='2 threads x 5 RMW ops (inc/add/add_return/sub/xchg/or, adjacent bytes): no lost update, all schedules',
                        bounds=dict(T=2, R=R + 1, U=3, B=0, impl=cfg)))
        obs.append(dict(name='atom3_%s' % cfg, src='c20_conc.c', cflags=cflags, nslots=4, pre=['b_pro'], post=['b_epi'],
                        plain=[('b_pro', 0), ('b_epi', 0)],
                        threads=[dict(fn='b_t1', slot=1), dict(fn='b_t2', slot=2), dict(fn='b_t3', slot=3)],
                        rounds=R, unwind=3, timeout=900,
                        desc='3 threads incl. a cmpxchg retry loop: sum/token conservation, all schedules',
                        bounds=dict(T=3, R=R, U=3, B=0, impl=cfg)))
        for wn, wt in (('u8', 'uint8_t'), ('u16', 'uint16_t'), ('u32', 'uint32_t'), ('u64', 'uint64_t')):
            obs.append(dict(name='atomw_%s_%s' % (cfg, wn), src='c20_conc.c', cflags=cflags + ['-DWT=' + wt], nslots=3, post=['w_epi'],
                            plain=[('w_epi', 0)], threads=[dict(fn='w_t1', slot=1), dict(fn='w_t2', slot=2)], rounds=R, unwind=3,
                            desc='2 threads apply cmpxchg-loop / add_return / sub_return / add / sub / inc / dec / or / and / xchg to one %s cell: no lost update' % wt,
                            bounds=dict(T=2, R=R, U=3, B=0, impl=cfg, width=wn)))
        for B in ((1,) if tier == 'quick' else (1, 2)):
            for st, ex in (('xchg', '(void)uatomic_xchg(p,1)'), ('cmpxchg', '(void)uatomic_cmpxchg(p,0,1)'),
                           ('add_return', '(void)uatomic_add_return(p,1)'), ('sub_return', '(void)uatomic_sub_return(p,-1)')):
                obs.append(dict(name='sb_%s_%s_B%d' % (cfg, st, B), src='c20_conc.c',
                                cflags=cflags + ['-DSB_STORE(p)=' + ex], nslots=3, post=['c_epi'], plain=[('c_epi', 0)],
                                threads=[dict(fn='c_t0', slot=1), dict(fn='c_t1', slot=2)], rounds=R, unwind=3, tso=B,
                                witnesses=['end of harness reachable', 'thread 1 ran first', 'both stores seen'],
                                desc='store-buffering litmus under x86-TSO (store buffer depth %d) with uatomic_%s as the store: '
                                     'relaxed outcome must be unreachable' % (B, st),
                                bounds=dict(T=2, R=R, U=3, B=B, impl=cfg)))
            obs.append(dict(name='sb_%s_set_relaxed_B%d' % (cfg, B), src='c20_conc.c',
                            cflags=cflags + ['-DSB_STORE(p)=uatomic_set(p,1)', '-DSB_EXPECT_RELAXED'], nslots=3,
                            post=['c_epi'], plain=[('c_epi', 0)],
                            threads=[dict(fn='c_t0', slot=1), dict(fn='c_t1', slot=2)], rounds=R, unwind=3, tso=B,
                            witnesses=['end of harness reachable', 'store buffering outcome r0=r1=0 reachable (no barrier)'],
                            desc='twin: with plain uatomic_set the relaxed outcome IS reachable (shows the TSO model can see the reordering)',
                            bounds=dict(T=2, R=R, U=3, B=B, impl=cfg)))
    return obs


EXPLANATION = 'C20: uatomic value semantics (a), RMW atomicity (b), full-barrier semantics under x86-TSO (c)'
OUTSIDE = 'non-x86 uatomic back ends (generic.h cmpxchg loops, other arch headers) are not compiled on this target'
ASSUMPTIONS = ['a lock-prefixed x86 instruction / xchg is atomic and a full fence (asm table)',
               'asm contract clause (val_x86asm_*): documented barrier instructions carry the memory clobber; an instruction that reads its '
               'memory operand does not declare it write-only - checked where the instruction executes, because the encoding sees only '
               'what clang made of the statement']
LEVEL_TEXT = ('Bounded model checking of the real uatomic macros (x86 inline-asm implementation via the asm semantics table, and the '
              'compiler-builtin implementation) for all 2^64 operand patterns, all aligned slots of a 16-byte image, widths 1/2/4/8, '
              'signed and unsigned; RMW atomicity and barrier strength over all schedules/store-buffer delays of 2-3 threads within R rounds.')
LEVEL_NOTE = 'Trusted: clang-14 lowering, irseq translator, x86 asm table (lock prefix = atomic + full fence), operational x86-TSO model, CBMC/MiniSat.'
