"""Shared obligation builders."""
import copy


def conc(name, src, threads, R, cflags=(), pre=('prologue',), post=('epilogue',), tso=0, unwind=3, desc='', wit=None,
         solo_order=None, live=True, safe=True, live_R=None, timeout=900, extra=None, nslots=None, faults=0, post_unwind=70, unwind_fn=None):
    """A concurrent obligation = up to two solver queries over the same encoding:
       <name>.safe : R symbolic rounds, executions in which every thread has finished (assume), then the oracle (post)
       <name>.live : R symbolic rounds, then a solo phase in which each thread in turn runs unpreempted until it finishes,
                     blocks or busy-waits; assert that every thread finished and that no deadlock state was reached
       threads: list of function names (slot i+1) or dicts"""
    ths = []
    for i, t in enumerate(threads):
        if isinstance(t, str):
            t = dict(fn=t)
        t = dict(t); t.setdefault('slot', i + 1)
        ths.append(t)
    ns = nslots or (max(t['slot'] for t in ths) + 1)
    def pl(f):
        return (f[0], f[1]) if isinstance(f, (list, tuple)) else (f, 0)
    plain = [pl(f) for f in list(pre) + list(post)]
    base = dict(src=src, cflags=list(cflags), nslots=ns, pre=list(pre), plain=plain, threads=ths, rounds=R, unwind=unwind,
                tso=tso, faults=faults, unwind_fn=dict({'^F0_': post_unwind}, **(unwind_fn or {})), timeout=timeout, rt_defines={'RT_NGHOST': 64})
    if extra:
        base.update(copy.deepcopy(extra))
    out = []
    bounds = dict(T=len(ths), R=R, U=unwind, B=tso)
    if faults:
        bounds['F'] = faults
    if safe:
        d = copy.deepcopy(base)
        d.update(name=name + '.safe', post=list(post), require_done='assume',
                 witnesses=['end of harness reachable'] + list(wit or []),
                 desc=desc + ' [safety oracle over all complete executions within the bound]', bounds=dict(bounds))
        out.append(d)
    if live:
        d = copy.deepcopy(base)
        so = solo_order or [t['slot'] for t in ths] * 2
        d.update(name=name + '.live', post=[], rounds=live_R or R, require_done='assert', solo=dict(slots=so, turns=1),
                 plain=[pl(f) for f in pre], witnesses=['end of harness reachable'],
                 desc=desc + ' [bounded completion: after any prefix within the bound every thread finishes when run in turn; no deadlock]',
                 bounds=dict(bounds, R=live_R or R, solo=so))
        out.append(d)
    return out


def progress(name, src, threads, R, tested, cflags=(), pre=('prologue',), unwind=3, desc='', no_wait=True, solo_turns=2, tso=0, timeout=900,
             extra=None, nslots=None, unwind_fn=None):
    """C17-style obligation: R symbolic rounds leave every thread at an arbitrary point; then ONLY the tested thread(s) run (solo);
    assert they finish and (no_wait) never executed a busy-wait hint nor blocked"""
    ths = []
    for i, t in enumerate(threads):
        if isinstance(t, str):
            t = dict(fn=t)
        t = dict(t); t.setdefault('slot', i + 1)
        ths.append(t)
    slots = [t['slot'] for t in ths if t['fn'] in tested]
    ns = nslots or (max(t['slot'] for t in ths) + 1)

    def pl(f):
        return (f[0], f[1]) if isinstance(f, (list, tuple)) else (f, 0)
    d = dict(name=name, src=src, cflags=list(cflags), nslots=ns, pre=list(pre), post=[], plain=[pl(f) for f in pre], threads=ths, rounds=R,
             unwind=unwind, tso=tso, timeout=timeout, rt_defines={'RT_NGHOST': 64}, unwind_fn=dict(unwind_fn or {}),
             solo=dict(slots=slots * solo_turns, turns=1), require_done='assert_slots', done_slots=slots,
             no_wait_slots=slots if no_wait else [], deadlock_check=False, witnesses=['end of harness reachable'],
             desc=desc, bounds=dict(T=len(ths), R=R, U=unwind, B=tso, tested=list(tested), others='suspended wherever the symbolic prefix left them'),
             # a loop of the tested operation that iterates more than the bound within one uninterrupted turn never completes alone
             unwind_assert_fn='^T(%s)_run\\.' % '|'.join(str(x) for x in sorted(set(slots))))
    if extra:
        d.update(extra)
    return [d]
