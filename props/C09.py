CLAIM = False
from props.C08 import seq


def obligations(tier):
    q = tier == 'quick'
    obs = []
    cfgs = [(0, 1, 1, 4), (1, 2, 1, 4)] if q else [(0, 1, 1, 8), (0, 2, 1, 4), (1, 1, 1, 8), (1, 2, 2, 4)]
    for (mm, i, mn, mx) in cfgs:
        o = seq('resize_any_%s_i%d_m%d_M%d' % (['order', 'chunk'][mm], i, mn, mx), 2, mm, i, mn, mx, 0, 0, unwind=6 if mx <= 4 else 8, extra_cf=[] if not q else ['-DONE_RESIZE'],
                desc='cds_lfht_resize(ht, n) for a fully symbolic 64-bit n on a table holding 2 nodes with symbolic hashes, then a second resize to another symbolic size: '
                     'returns (unwinding assertions bound the resize loop), contents preserved (lookup / traversal / count), 1 <= size <= max, pool allocator checks '
                     'single free and no use of freed bucket tables',
                wit=['non power of two request', 'ULONG_MAX request', 'zero request'])
        obs.append(o)
    return obs


EXPLANATION = 'C09: resize terminates, preserves contents, respects bounds'
OUTSIDE = 'tables above 8 buckets, more than 2 nodes during the resize, concurrent readers/updaters during a resize and lazy (workqueue) resizes are not covered by these sequential obligations'
ASSUMPTIONS = ['custom cds_lfht_alloc backed by typed static pools with poisoning on free', 'ghost flavor: synchronize_rcu counts grace periods and asserts it is not called inside a read-side section']
LEVEL_TEXT = ('Bounded model checking with unwinding assertions of the real cds_lfht_resize/_do_cds_lfht_resize/init_table/fini_table for every 64-bit requested size '
              '(two consecutive requests) on small tables, per allocator.')
LEVEL_NOTE = 'Trusted: clang-14 lowering, irseq translator, asm table, pool allocator, CBMC/MiniSat.'
TECHNIQUE = 'bounded symbolic execution of the real code (LLVM IR -> irseq plain mode -> CBMC SAT with unwinding assertions): requested sizes and hashes are solver variables'
