CLAIM = True
from props.C08 import seq


def obligations(tier):
    q = tier == 'quick'
    obs = []
    reqs = ['0', '1', '2', '3', '4', '5', '7', '~0UL', '(1UL<<63)+1'] if q else ['0', '1', '2', '3', '4', '5', '6', '7', '8', '9', '~0UL', '(1UL<<63)', '(1UL<<63)+1', '(1UL<<32)+3']
    cfgs = [(0, 1, 1, 4)] if q else [(0, 1, 1, 4), (0, 2, 1, 8), (1, 2, 1, 4)]
    for (mm, i, mn, mx) in cfgs:
        for n in reqs:
            tag = n.replace('~0UL', 'max').replace('(1UL<<63)+1', 'p63p1').replace('(1UL<<63)', 'p63').replace('(1UL<<32)+3', 'p32p3')
            o = seq('resize_to_%s_%s_i%d_m%d_M%d' % (tag, ['order', 'chunk'][mm], i, mn, mx), 2, mm, i, mn, mx, 0, 0, unwind=6,
                    extra_cf=['-DREQ_N=%s' % n, '-DONE_RESIZE'],
                    desc='cds_lfht_resize(ht, %s) on a table holding 2 nodes with symbolic keys and 64-bit hashes: returns (unwinding assertions bound the resize '
                         'loop at 2 iterations), contents preserved (lookup / duplicates / traversal / count), 1 <= size <= max, single free, no use of freed buckets' % n)
            o['unwind_fn'] = dict(o['unwind_fn'], **{'^F0__do_cds_lfht_resize$': 3})
            o['bounds']['requested_size'] = n
            obs.append(o)
    # lazy resize (AUTO_RESIZE | ACCOUNTING, harness SCEN 4 with a deferred-work model of the workqueue and the COUNT_COMMIT_ORDER /
    # CHAIN_LEN_RESIZE_THRESHOLD hooks) was built but symbolic execution of 2 adds + queued resizes did not finish within 25 minutes
    # (twice): no obligation is registered for it, see OUTSIDE
    return obs


EXPLANATION = 'C09: resize terminates, preserves contents, respects bounds'
OUTSIDE = 'requested sizes other than the listed ones (chosen to cover 0, powers of two, non powers of two, above max, ULONG_MAX, >2^63); tables above 8 buckets, more than 2 nodes during the resize, concurrent readers/updaters during a resize and lazy (workqueue) resizes are not covered by these sequential obligations'
ASSUMPTIONS = ['custom cds_lfht_alloc backed by typed static pools with poisoning on free', 'ghost flavor: synchronize_rcu counts grace periods and asserts it is not called inside a read-side section']
LEVEL_TEXT = ('Bounded model checking with unwinding assertions of the real cds_lfht_resize/_do_cds_lfht_resize/init_table/fini_table for every 64-bit requested size '
              '(two consecutive requests) on small tables, per allocator.')
LEVEL_NOTE = 'Trusted: clang-14 lowering, irseq translator, asm table, pool allocator, CBMC/MiniSat.'
TECHNIQUE = 'bounded symbolic execution of the real code (LLVM IR -> irseq plain mode -> CBMC SAT with unwinding assertions): requested sizes and hashes are solver variables'
