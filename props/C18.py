CLAIM = True
from props.common import conc


def obligations(tier):
    q = tier == 'quick'
    obs = []
    for hl, nm in ((0, 'list'), (1, 'hlist')):
        for nstep in (2,):          # 3 updates: no verdict within 15 min
            R = 3 if q else 4
            obs += conc('%s_%dupd' % (nm, nstep), 'c18_list.c', ['updater', 'reader'], R, cflags=['-DHL=%d' % hl, '-DNSTEP=%d' % nstep],
                        unwind=3, unwind_fn={'^T2_run': 7}, solo_order=[2, 1, 2, 1],
                        desc='cds_%s: updater applies %d symbolic updates (add head / add tail / del+free after GP / replace) to a 2-node list while a reader '
                             'traverses with the _rcu iterator' % (nm, nstep),
                        wit=['updater added at head', 'updater deleted a node and freed it after the grace period', 'reader visited four nodes',
                             'reader visited one node'] + ([] if hl else ['updater replaced a node']))
        for B in ():          # TSO variants ran out of memory (12 and 28 GB): not part of any tier          # TSO variants need > 12 GB: thorough tier only
            obs += conc('%s_2upd_tso%d' % (nm, B), 'c18_list.c', ['updater', 'reader'], 3, cflags=['-DHL=%d' % hl, '-DNSTEP=2'],
                        unwind=3, unwind_fn={'^T2_run': 7}, tso=B, solo_order=[2, 1, 2, 1], extra={'mem_gb': 28}, desc='same under x86-TSO store buffers of depth %d' % B)
    return obs


EXPLANATION = 'C18: RCU list and hlist traversal vs one updater'
OUTSIDE = 'more than 3 updates / 5 nodes; non-x86 memory models (where rcu_dereference ordering matters); several concurrent readers (each reader is independent of the others)'
ASSUMPTIONS = ['synchronize_rcu contract stub: blocks until no reader section is open (a legal, possibly longer, grace period)',
               'removed nodes are poisoned and really freed after the stub grace period; CBMC flags every later access']
LEVEL_TEXT = ('Bounded model checking of the real rculist.h / rcuhlist.h primitives and iterators: symbolic update sequences (2-3 updates) against a traversing reader, '
              'every interleaving of the individual pointer stores and loads within R rounds, SC and x86-TSO; oracle: termination bound, list order, residents visited '
              'exactly once, only ever-present nodes visited, initialised payload, no access to freed nodes.')
LEVEL_NOTE = 'Trusted: clang-14 lowering, irseq translator, TSO model, CBMC heap model + MiniSat; bounds in evidence.'
