CLAIM = True


from props.common import conc

CF = ['-DURCU_VERIF_WFCQ_ADAPT_ATTEMPTS=2']


def ob(name, scen, deq, threads, R, tso=0, desc='', wit=None, unwind=3, timeout=900, pre=None):
    return conc(name, 'c10_wfcq.c', threads, R, cflags=['-DSCEN=%d' % scen, '-DDEQ=%d' % deq] + CF, tso=tso, unwind=unwind,
                desc=desc, wit=wit, timeout=timeout, extra={'mem_gb': 8}, **({'pre': pre} if pre else {}),
                solo_order=[i + 1 for i, f in enumerate(threads)] + [i + 1 for i, f in enumerate(threads) if f.startswith('c')])


def obligations(tier):
    q = tier == 'quick'
    R = 3 if q else 4
    obs = []
    kinds = {0: 'blocking', 1: 'nonblocking', 2: 'with_state_blocking', 3: 'with_state_nonblocking'}
    for k, kn in kinds.items():
        obs += (ob('fifo_%s' % kn, 1, k, ['p1', 'p2', 'c1'], R,
                      desc='2 producers (3 enqueues) vs single consumer doing 2 x __cds_wfcq_dequeue_%s, then drain: '
                           'FIFO bad-pattern oracle + conservation + enqueue result + WOULDBLOCK/LAST clauses' % kn,
                      wit=['consumer dequeued two nodes concurrently with the producers', 'consumer saw an empty queue']
                      + (['dequeue reported STATE_LAST', 'dequeue without STATE_LAST'] if k in (2, 3) else [])))
    obs += (ob('fifo_mutex_2consumers', 4, 4, ['p1', 'p2', 'c1', 'c2'], R,
                  desc='2 producers vs 2 consumers through the mutex-protected cds_wfcq_dequeue_blocking'))
    obs += (ob('splice_blocking', 2, 0, ['p1', 'p2', 'c1'], R, desc='splice src->dst racing in-flight enqueuers; dst drained; src reused',
                  wit=['splice moved nodes into an empty destination', 'splice found the source empty',
                       'second splice appended behind existing nodes']))
    obs += (ob('splice_nonblocking', 2, 1, ['p1', 'p2', 'c1'], R, desc='same with __cds_wfcq_splice_nonblocking first'))
    obs += (ob('splice_mutex_2consumers', 7, 0, ['p1', 'c1', 'c2'], R, pre=['prologue', 'prologue2'],
                  desc='locked API: cds_wfcq_splice_blocking(dest, src) vs a second consumer of src that peeks and dequeues under '
                       'cds_wfcq_dequeue_lock(src) and through cds_wfcq_dequeue_blocking(src), with an enqueuer on src',
                  wit=['locked splice moved nodes', 'second consumer dequeued from the source under its lock',
                       'second consumer found the source already spliced out']))
    obs += (ob('iter_for_each_safe', 3, 1, ['p1', 'p2', 'c1'], R, desc='__cds_wfcq_for_each_blocking_safe (first/next) while producers enqueue', unwind=6,
                  wit=['iteration saw all three nodes', 'iteration saw one node']))
    obs += (ob('empty_observer', 5, 0, ['p1', 'c1', 'c2'], R, desc='cds_wfcq_empty() by a third thread vs producer and consumer',
                  wit=['empty() observed a non-empty queue']))
    for B in ((1,) if q else (1, 2)):
        obs += (ob('fifo_blocking_tso%d' % B, 1, 0, ['p1', 'p2', 'c1'], 3 if q else 4, tso=B,
                      desc='fifo_blocking under x86-TSO, store buffer depth %d' % B))
        obs += (ob('splice_blocking_tso%d' % B, 2, 0, ['p1', 'p2', 'c1'], 3 if q else 4, tso=B,
                      desc='splice_blocking under x86-TSO, store buffer depth %d' % B))
    return obs


EXPLANATION = 'C10: wfcqueue FIFO (legacy wfqueue: see obligations named wfq_*)'
OUTSIDE = 'more than 3 enqueues / 2 producers in the concurrent phase, more than R rounds of context switches, non-x86 memory models'
ASSUMPTIONS = ['history oracle = complete set of queue bad patterns (VFresh, VRepet, VOrd, VWit) on tight invisible stamps',
               'WFCQ_ADAPT_ATTEMPTS=2 through the URCU_VERIF hook so both the spin and the sleep branch are inside the bound']
LEVEL_TEXT = ('Bounded model checking of the real wfcqueue inline functions (enqueue/append, dequeue blocking/nonblocking/with_state, splice, '
              'first/next iteration, empty, mutex wrappers): every interleaving with at most R rounds of context switches among 3-4 threads '
              '(plus a solo completion phase), SC and x86-TSO with store buffers of depth 1-2; oracle: queue bad-pattern characterisation of '
              'linearizability + conservation after a sequential drain + bounded completion.')
LEVEL_NOTE = 'Trusted: clang-14 lowering, irseq translator, asm table, TSO model, mutex/poll stubs, CBMC/MiniSat; bounds listed in evidence.'
