CLAIM = False
NA_REASON = 'not decided: the concurrent hash-table encoding (harness/c05_lfht_conc.c, scenarios for this property included) gives no verdict within the caps; not claimed'


def obligations(tier):
    return []
