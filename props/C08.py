CLAIM = True

STUB = {'get_possible_cpus_array_len': 'my_ncpus'}


def seq(name, scen, mm=0, init=1, mn=1, mx=4, flags=0, lops=3, unwind=6, desc='', wit=None, extra_cf=(), timeout=1500):
    return dict(name=name, src='c08_lfht_seq.c',
                cflags=['-DSCEN=%d' % scen, '-DMM=%d' % mm, '-DINIT=%d' % init, '-DMINB=%d' % mn, '-DMAXB=%d' % mx, '-DFLAGS=%d' % flags,
                        '-DLOPS=%d' % lops] + list(extra_cf),
                nslots=1, pre=['seq'], plain=[('seq', 0)], stub_map=STUB, extra_srcs=['src/rculfhash-mm-%s.c' % ['order', 'chunk'][mm]], unwind=unwind, unwinding_assertions=True, timeout=timeout, mem_gb=14 if lops <= 3 else 24, intaddr_ok=True, unwind_fn={'^F0_(a_|seq|check_|setup|one_op|uidx|model_)': 10},
                witnesses=['end of harness reachable'] + list(wit or []), desc=desc,
                bounds=dict(ops=lops, nodes=3, hashes='2 fully symbolic 64-bit hash values', init=init, min=mn, max=mx, mm=['order', 'chunk'][mm]))


OPN = ['add', 'addu', 'addr', 'del', 'resize']


def opseq(mm, ops, cfg, tier):
    i, mn, mx = cfg
    mmn = ['order', 'chunk'][mm]
    o = seq('ops_%s_%s_i%d_m%d_M%d' % (mmn, '_'.join(OPN[x] for x in ops), i, mn, mx), 1, mm, i, mn, mx, 0, len(ops),
            extra_cf=['-DOP%d=%d' % (k + 1, x) for k, x in enumerate(ops)], unwind=6,
            desc='operations %s on symbolic nodes (3 nodes, symbolic keys, 2 symbolic 64-bit hashes) vs reference multimap; then lookup+next_duplicate per key, '
                 'full traversal, count_nodes, size bounds; destroy iff empty' % ', '.join(OPN[x] for x in ops))
    return o


def obligations(tier):
    q = tier == 'quick'
    obs = []
    import itertools
    if q:
        seqs = [(0, 0, 1), (1, 0, 3), (0, 3, 1)]     # resize is C09's (quick); thorough enumerates all 125 kinds
    else:
        seqs = list(itertools.product((0, 1, 3), repeat=3)) + [(0, 2, 3), (2, 0, 1), (0, 4, 0), (0, 0, 4)]
    for mm in (0, 1):
        cfgs = [(1, 1, 4)] if q or mm == 1 else [(1, 1, 4), (2, 1, 2)]
        for cfg in cfgs:
            for ops in (seqs if mm == 0 or not q else seqs[:1]):
                obs.append(opseq(mm, ops, cfg, tier))
        if mm == 0 or not q:
          obs.append(seq('new_params_%s' % ['order', 'chunk'][mm], 3, mm, extra_cf=['-DPMAX=%d' % (2 if q else 4)], desc='cds_lfht_new parameter normalisation for arbitrary (init,min,max) within the pool capacity',
                       wit=['max < init', 'min > init']))
    return obs


EXPLANATION = 'C08: sequential lfht behaviour equals a reference multimap'
OUTSIDE = 'sequences longer than 3 operations (operation kinds enumerated, operands symbolic), more than 3 nodes / 2 distinct keys, tables above 8 buckets, the mmap allocator (needs the mmap primitive), AUTO_RESIZE (C09)'
ASSUMPTIONS = ['custom cds_lfht_alloc backed by typed static pools (allocation never fails)', 'get_possible_cpus_array_len() stubbed to 1 (sysfs parsing)',
               'flavor = ghost read_lock/unlock/synchronize_rcu']
LEVEL_TEXT = ('Bounded model checking (with unwinding assertions) of the real rculfhash.c + bucket allocator for every sequence of L operations and every pair of 64-bit hash values '
              'against a reference multimap, per allocator and (init,min,max) configuration; parameter normalisation for arbitrary arguments.')
LEVEL_NOTE = 'Trusted: clang-14 lowering, irseq translator, asm table (bsr, lock cmpxchg), pool allocator, CBMC/MiniSat.'
TECHNIQUE = 'bounded symbolic execution of the real code (LLVM IR -> irseq plain mode -> CBMC SAT with unwinding assertions): operation sequence and hash values are solver variables'
