CLAIM = True

STUB = {'get_possible_cpus_array_len': 'my_ncpus'}


def seq(name, scen, mm=0, init=1, mn=1, mx=4, flags=0, lops=3, unwind=6, desc='', wit=None, extra_cf=(), timeout=1500):
    return dict(name=name, src='c08_lfht_seq.c',
                cflags=['-DSCEN=%d' % scen, '-DMM=%d' % mm, '-DINIT=%d' % init, '-DMINB=%d' % mn, '-DMAXB=%d' % mx, '-DFLAGS=%d' % flags,
                        '-DLOPS=%d' % lops] + list(extra_cf),
                nslots=1, pre=['seq'], plain=[('seq', 0)], stub_map=STUB, extra_srcs=['src/rculfhash-mm-%s.c' % ['order', 'chunk'][mm]], unwind=unwind, unwinding_assertions=True, timeout=timeout, mem_gb=20,
                witnesses=['end of harness reachable'] + list(wit or []), desc=desc,
                bounds=dict(ops=lops, nodes=3, hashes='2 fully symbolic 64-bit hash values', init=init, min=mn, max=mx, mm=['order', 'chunk'][mm]))


def obligations(tier):
    q = tier == 'quick'
    L = 3 if q else 4
    obs = []
    for mm, mmn in ((0, 'order'), (1, 'chunk')):
        cfgs = [(1, 1, 4)] if q else [(1, 1, 4), (2, 1, 2), (4, 2, 4), (1, 2, 8)]
        for (i, mn, mx) in cfgs:
            obs.append(seq('ops_%s_i%d_m%d_M%d' % (mmn, i, mn, mx), 1, mm, i, mn, mx, 0, L,
                           desc='%d symbolic operations (add/add_unique/add_replace/del/resize) on 3 nodes with 2 symbolic 64-bit hashes vs reference multimap; '
                                'after every step: lookup+next_duplicate per key, full traversal, count_nodes, size bounds; destroy iff empty' % L,
                           wit=['both keys hash to the same value', 'duplicate key stored', 'add_replace replaced a node', 'resize to 4 buckets']))
        obs.append(seq('new_params_%s' % mmn, 3, mm, desc='cds_lfht_new parameter normalisation for arbitrary (init,min,max) within the pool capacity',
                       wit=['max < init', 'min > init']))
    return obs


EXPLANATION = 'C08: sequential lfht behaviour equals a reference multimap'
OUTSIDE = 'sequences longer than L operations, more than 3 nodes / 2 distinct keys, tables above 8 buckets, the mmap allocator (needs the mmap primitive), AUTO_RESIZE (C09)'
ASSUMPTIONS = ['custom cds_lfht_alloc backed by typed static pools (allocation never fails)', 'get_possible_cpus_array_len() stubbed to 1 (sysfs parsing)',
               'flavor = ghost read_lock/unlock/synchronize_rcu']
LEVEL_TEXT = ('Bounded model checking (with unwinding assertions) of the real rculfhash.c + bucket allocator for every sequence of L operations and every pair of 64-bit hash values '
              'against a reference multimap, per allocator and (init,min,max) configuration; parameter normalisation for arbitrary arguments.')
LEVEL_NOTE = 'Trusted: clang-14 lowering, irseq translator, asm table (bsr, lock cmpxchg), pool allocator, CBMC/MiniSat.'
TECHNIQUE = 'bounded symbolic execution of the real code (LLVM IR -> irseq plain mode -> CBMC SAT with unwinding assertions): operation sequence and hash values are solver variables'
