CLAIM = False
from props.common import conc

STUB = {'get_possible_cpus_array_len': 'my_ncpus'}
EX = {'stub_map': STUB, 'extra_srcs': ['src/rculfhash-mm-order.c'], 'intaddr_ok': True, 'mem_gb': 16}


def lf(name, scen, threads, R, cf=(), desc='', wit=None, tso=0, unwind=3):
    return conc(name, 'c05_lfht_conc.c', threads, R, cflags=['-DSCEN=%d' % scen] + list(cf), tso=tso, unwind=unwind, desc=desc, wit=wit,
                extra=EX, timeout=1800, post_unwind=5)


def obligations(tier):
    q = tier == 'quick'
    obs = []
    obs += lf('resident_found', 1, ['ta', 'tb', 'tr'], 3, cf=['-DKY=0', '-DKZ=0', '-DCOLLIDE'],
              desc='resident node looked up / traversed while a duplicate-key neighbour is added and another removed in the same bucket (all hashes equal)')
    return obs


EXPLANATION = 'C05: lfht linearizability / resident nodes never missed'
OUTSIDE = 'more than 3 threads / 1 operation per thread; tables above 2 buckets; concurrent resize'
ASSUMPTIONS = ['ghost flavor: read_lock/unlock counters per thread, synchronize_rcu blocks until the other threads are outside read-side sections',
               'typed static pools behind a custom cds_lfht_alloc; get_possible_cpus_array_len() = 1']
LEVEL_TEXT = 'Bounded model checking of the real rculfhash.c add/del/lookup/traversal code for all interleavings within R rounds of 3 threads and all 64-bit hash values.'
LEVEL_NOTE = 'Trusted: clang-14 lowering, irseq translator, asm table, ghost flavor, pool allocator, CBMC/MiniSat.'
NA_REASON = ('not decided: harness/c05_lfht_conc.c runs the real _cds_lfht_add / _cds_lfht_del / lookup in three threads; their nested retry x bucket-walk x garbage-collect loops '
             'do not finish symbolic execution within 25 minutes, so there is no verdict on the unchanged tree and nothing is claimed; the sequential behaviour of the same functions '
             'is covered by C08/C09')
