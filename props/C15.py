CLAIM = True
from props.C01 import gp


def obligations(tier):
    q = tier == 'quick'
    obs = []
    for fl in (('qsbr',) if q else ('qsbr', 'mb')):      # qsbr fits the per-change budget (mb: 15 min per query)
        obs += gp('%s_dyn_reader' % fl, fl, ['updater', 'reader_dyn'], 3, dyn=1, live=(not q and fl == 'qsbr'),       # the bounded-completion query takes 20 min: thorough tier
                  desc='%s: reader registers, runs a section, unregisters, registers again, runs a section, unregisters - concurrently with both scans of synchronize_rcu; '
                       'C01 oracles; registry empty and well formed at quiescence; everybody finishes' % fl,
                  wit=['reader registered, ran, unregistered twice'])
    return obs


EXPLANATION = 'C15: dynamic reader registration (memb/mb/qsbr); bp arena not covered'
OUTSIDE = 'bp flavor (lazy registration, arena growth, slot reuse, signal blocking during registration): encoded (mmap model, typed arena chunk) but the solver exhausted 24 GB on updater-vs-reader, so no bp obligation is registered; >1 dynamic reader'
ASSUMPTIONS = ['as C01/C02']
LEVEL_TEXT = 'Bounded model checking of register/unregister racing the two registry scans of synchronize_rcu with the C01/C02 oracles and registry well-formedness at quiescence.'
LEVEL_NOTE = 'Trusted: as C01.'
NA_REASON = 'check built but not yet validated on the unchanged tree within the time/memory caps; not claimed'
