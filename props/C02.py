CLAIM = True
from props.C01 import gp


def obligations(tier):
    q = tier == 'quick'
    obs = []
    # quick tier: qsbr with 3 rounds (9 min) and mb with 2 symbolic rounds before the solo phase; thorough: 3 rounds everywhere (mb: 24 min)
    for fl in (('mb', 'qsbr') if q else ('mb', 'memb', 'qsbr')):
        obs += gp('%s_1r' % fl, fl, ['updater', 'reader'], 2 if (q and fl == 'mb') else 3, faults=1, live=True, safe=False,
                  desc='%s: synchronize_rcu completes once the reader has left; futex waits may return spuriously / EINTR once; deadlock detector after every round' % fl)
    if not q:
        obs += gp('mb_2callers', 'mb', ['updater', 'updater2'], 3, faults=1, live=True, safe=False, timeout=4500, mem_gb=20,
                  desc='mb: two concurrent synchronize_rcu callers, no reader: the second may queue behind the first as a follower and sleep on its wait '
                       'node (URCU_WAIT_ATTEMPTS=1); its FUTEX_WAIT may return spuriously / EINTR once; both return',
                  wit=['second synchronize_rcu caller returned'])
    return obs


EXPLANATION = 'C02: grace periods complete once readers leave (no lost wake-up, no deadlock)'
OUTSIDE = 'fairness-dependent starvation; >2 callers; >1 futex fault per run in the quick tier'
ASSUMPTIONS = ['futex(2) model: WAIT atomically re-checks the word; WAKE wakes up to n waiters; spurious 0 / EINTR returns under a fault budget',
               'RCU_QS_ACTIVE_ATTEMPTS=2, URCU_WAIT_ATTEMPTS=1 through the URCU_VERIF hooks']
LEVEL_TEXT = ('Bounded model checking of the real wait_for_readers/wait_gp/wake_up_gp handshake: after any prefix of R symbolic rounds (with futex faults), every thread finishes when run '
              'in turn; a state in which every unfinished thread is blocked is reported as deadlock / lost wake-up.')
LEVEL_NOTE = 'Trusted: clang-14 lowering, irseq translator, asm table, TSO model, futex/mutex stubs, CBMC/MiniSat.'
NA_REASON = 'check built but not yet validated on the unchanged tree within the time/memory caps; not claimed'
