CLAIM = False
from props.common import conc

FL = {'mb': 1, 'memb': 2, 'qsbr': 3, 'bp': 4}
HOOKS = ['-DURCU_VERIF_RCU_QS_ACTIVE_ATTEMPTS=2', '-DURCU_VERIF_URCU_WAIT_ATTEMPTS=1']


def gp(name, flavor, threads, R, tso=0, nested=0, unreg=0, membarrier=1, faults=0, live=False, safe=True, desc='', wit=None, unwind=4,
       live_R=None, timeout=1500, futex_enosys=0):
    regs = [('reg', i + 1) for i, t in enumerate(threads) if t == 'reader' or (flavor == 'qsbr' and t.startswith('updater') and False)]
    extra = {'membarrier': membarrier, 'futex_enosys': futex_enosys, 'mem_gb': 20}
    return conc(name, 'c01_gp.c', threads, R, cflags=['-DFLAVOR=%d' % FL[flavor], '-DNESTED=%d' % nested, '-DUNREG=%d' % unreg] + HOOKS,
                pre=['setup'] + regs, post=['epilogue'], tso=tso, unwind=unwind, desc=desc, wit=wit, live=live, safe=safe, live_R=live_R,
                timeout=timeout, faults=faults, extra=extra, nslots=4)


def obligations(tier):
    q = tier == 'quick'
    obs = []
    for fl in ('mb', 'memb', 'qsbr', 'bp'):
        obs += gp('%s_1r' % fl, fl, ['updater', 'reader'], 3, desc='%s: updater (unpublish, synchronize_rcu, free) vs one reader section' % fl,
                  wit=['reader section overlaps the grace period', 'reader ran before the updater'] + ([] if fl == 'qsbr' else ['reader ran after the grace period']))
    return obs


EXPLANATION = 'C01: grace-period guarantee'
OUTSIDE = '>2 readers, >2 concurrent callers, nesting depth >2, non-x86 memory models'
ASSUMPTIONS = ['RCU_QS_ACTIVE_ATTEMPTS=2, URCU_WAIT_ATTEMPTS=1 through the URCU_VERIF hooks so that spin and futex-sleep paths are inside the bound']
LEVEL_TEXT = 'Bounded model checking of the real synchronize_rcu / read-side primitives of each flavor against ghost critical-section intervals, the litmus form and real reclamation.'
LEVEL_NOTE = 'Trusted: clang-14 lowering, irseq translator, asm table, TSO + membarrier models, futex/mutex stubs, CBMC/MiniSat.'
