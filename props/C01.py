CLAIM = True
from props.common import conc

FL = {'mb': 1, 'memb': 2, 'qsbr': 3, 'bp': 4}
HOOKS = ['-DURCU_VERIF_RCU_QS_ACTIVE_ATTEMPTS=2', '-DURCU_VERIF_URCU_WAIT_ATTEMPTS=1']


def gp(name, flavor, threads, R, tso=0, nested=0, unreg=0, membarrier=1, faults=0, live=False, safe=True, desc='', wit=None, unwind=4,
       live_R=None, timeout=3000, futex_enosys=0, handlers=None, dyn=0, reg_slots=None, tso_slots=None, mem_gb=12):
    regs = [('reg', i + 1) for i, t in enumerate(threads) if t == 'reader' or (reg_slots and (i + 1) in reg_slots)]
    extra = {'membarrier': membarrier, 'futex_enosys': futex_enosys, 'mem_gb': mem_gb}
    if flavor == 'bp':
        # the registry arena is a byte-typed object (mmap model): pointers read back from it always carry CBMC's integer-address
        # fallback next to their real targets; accesses that resolve to the fallback ALONE are still refused
        extra['intaddr_ok'] = True
        extra['stub_map'] = {'mmap': 'my_mmap'}
    if tso_slots:
        extra['tso_slots'] = tso_slots
    if handlers:
        extra['handlers'] = [dict(fn='sig_handler', slot=k) for k in handlers]
    return conc(name, 'c01_gp.c', threads, R, cflags=(['-DURCU_VERIF_INIT_READER_COUNT=1'] if flavor == 'bp' else []) + ['-DFLAVOR=%d' % FL[flavor], '-DNESTED=%d' % nested, '-DUNREG=%d' % unreg, '-DDYN=%d' % dyn] + HOOKS,
                pre=['setup'] + regs, post=['epilogue'], tso=tso, unwind=unwind, desc=desc, wit=wit, live=live, safe=safe, live_R=live_R,
                timeout=timeout, faults=faults, extra=extra, nslots=4)


def obligations(tier):
    q = tier == 'quick'
    obs = []
    W1 = ['reader section overlaps the grace period', 'reader ran before the updater']
    # quick tier: what fits the 15-minute budget of a per-change check (mb 9-10 min, qsbr 3 min, run side by side)
    for fl in (('mb', 'qsbr') if q else ('mb', 'memb', 'qsbr')):
        obs += gp('%s_1r' % fl, fl, ['updater', 'reader'], 3,
                  desc='%s: updater (unpublish, synchronize_rcu, free) vs one reader section; ghost-interval, litmus and reclamation oracles' % fl,
                  wit=W1 + ([] if fl == 'qsbr' else ['reader ran after the grace period']))
    if not q:
      obs += gp('mb_2callers', 'mb', ['updater', 'reader', 'updater2'], 2,
              desc='mb: two concurrent synchronize_rcu callers (the second may be merged into the first one\'s grace period) and one reader: '
                   'each caller\'s return waits for the sections open at ITS call', wit=['second synchronize_rcu caller returned'])
    if not q:
      obs += gp('memb_1r_tso1', 'memb', ['updater', 'reader'], 3, tso=1, tso_slots=[2], mem_gb=24, timeout=4500,
              desc='memb with sys_membarrier under x86-TSO (store buffer depth 1): the reader side has only compiler barriers, the updater\'s '
                   'membarrier must flush the reader\'s buffered ctr store before each scan (store buffering modelled for the reader thread; the updater is SC)', wit=W1)
    if not q:
        # further thorough obligations that were run to a verdict on this tree
        obs += gp('mb_nested', 'mb', ['updater', 'reader'], 3, nested=1, desc='mb: reader with a nested lock/unlock pair inside its section', wit=W1)
    return obs


EXPLANATION = 'C01: grace-period guarantee'
OUTSIDE = ('>2 readers, >2 concurrent callers, nesting depth >2, non-x86 memory models; bp flavor: the encoding exists (FLAVOR=4, mmap/pthread_key models, typed arena chunk) '
           'but updater-vs-reader at R=3 exhausted a 24 GB solver limit three times (byte-typed arena, typed arena, single-reader arena), so no bp obligation is registered')
ASSUMPTIONS = ['RCU_QS_ACTIVE_ATTEMPTS=2, URCU_WAIT_ATTEMPTS=1 through the URCU_VERIF hooks so that spin and futex-sleep paths are inside the bound']
LEVEL_TEXT = 'Bounded model checking of the real synchronize_rcu / read-side primitives of each flavor against ghost critical-section intervals, the litmus form and real reclamation.'
LEVEL_NOTE = 'Trusted: clang-14 lowering, irseq translator, asm table, TSO + membarrier models, futex/mutex stubs, CBMC/MiniSat.'
