CLAIM = True


def obligations(tier):
    q = tier == 'quick'
    K = 5 if q else 6
    obs = [dict(name='poll_seq_K%d' % K, src='c14_poll.c', cflags=['-DKSTEPS=%d' % K], nslots=1, pre=['seq'], plain=[('seq', 0)],
                 stub_map={'urcu_mb_call_rcu': 'my_call_rcu'}, indirect_only={'seq': ['urcu_poll_worker_cb']},
                 unwind=K + 2, unwinding_assertions=True, timeout=1500, mem_gb=16,
                 witnesses=['end of harness reachable', 'handle taken while a worker grace period was already in flight', 'a poll returned true',
                            'worker re-queued itself'],
                 desc='every sequence of %d atomic steps over {start_poll x3 handles, poll, reader begin/end x2, worker callback} from an arbitrary 64-bit starting id' % K,
                 bounds=dict(steps=K, handles=3, readers=2, start_id='any 2^64 value'))]
    import copy
    w = copy.deepcopy(obs[0])
    w['name'] = 'poll_seq_K%d_wrap' % K
    w['cflags'] = w['cflags'] + ['-DWRAP_ONLY']
    w['desc'] += ' restricted to starting ids within 4 of the unsigned (2^64) and signed (2^63) wrap points'
    w['bounds']['start_id'] = 'within 4 of 2^64 and 2^63'
    obs.append(w)
    from props.common import conc
    R = 3 if q else 4
    obs += conc('poll_conc', 'c14_conc.c', ['t1', 'helper', 't3'], R, pre=(), post=('epilogue',), unwind=3, live=False,
                desc='start_poll / poll racing the worker callback under the real mutex: a handle taken and polled inside a read-side section must poll false',
                extra={'stub_map': {'urcu_mb_call_rcu': 'my_call_rcu'}, 'indirect_only': {'helper': ['urcu_poll_worker_cb']},
                       'require_done': 'none'})
    return obs


EXPLANATION = 'C14: polling API never reports early, eventually reports, stays true'
OUTSIDE = 'sequences longer than K steps; more than 3 handles / 2 readers; the atomicity premise (every function body runs under poll_worker_gp_state.lock) is read off the code, not checked by an interleaving run'
ASSUMPTIONS = ['call_rcu replaced by a stub with the contract of C03 (callback runs once, after all reader sections open at enqueue have ended)',
               'each API function is one atomic step (it holds poll_worker_gp_state.lock from first to last access)']
LEVEL_TEXT = 'Bounded model checking of the real start_poll/poll_state/worker callback code over all step sequences within K from an arbitrary starting counter value (wrap-around included).'
LEVEL_NOTE = 'Trusted: clang-14 lowering, irseq translator, mutex stub, C03 contract, CBMC/MiniSat.'
TECHNIQUE = 'bounded symbolic execution of the real code (LLVM IR -> irseq plain mode -> CBMC SAT): operation sequence, handle choice and starting counter are solver variables'
