CLAIM = True


def obligations(tier):
    q = tier == 'quick'
    K = 5 if q else 6
    return [dict(name='poll_seq_K%d' % K, src='c14_poll.c', cflags=['-DKSTEPS=%d' % K], nslots=1, pre=['seq'], plain=[('seq', 0)],
                 stub_map={'urcu_mb_call_rcu': 'my_call_rcu'}, indirect_only={'seq': ['urcu_poll_worker_cb']},
                 unwind=K + 2, unwinding_assertions=True, timeout=1500, mem_gb=16,
                 witnesses=['end of harness reachable', 'handle taken while a worker grace period was already in flight', 'a poll returned true',
                            'worker re-queued itself'],
                 desc='every sequence of %d atomic steps over {start_poll x3 handles, poll, reader begin/end x2, worker callback} from an arbitrary 64-bit starting id' % K,
                 bounds=dict(steps=K, handles=3, readers=2, start_id='any 2^64 value'))]


EXPLANATION = 'C14: polling API never reports early, eventually reports, stays true'
OUTSIDE = 'sequences longer than K steps; more than 3 handles / 2 readers; the atomicity premise (every function body runs under poll_worker_gp_state.lock) is read off the code, not checked by an interleaving run'
ASSUMPTIONS = ['call_rcu replaced by a stub with the contract of C03 (callback runs once, after all reader sections open at enqueue have ended)',
               'each API function is one atomic step (it holds poll_worker_gp_state.lock from first to last access)']
LEVEL_TEXT = 'Bounded model checking of the real start_poll/poll_state/worker callback code over all step sequences within K from an arbitrary starting counter value (wrap-around included).'
LEVEL_NOTE = 'Trusted: clang-14 lowering, irseq translator, mutex stub, C03 contract, CBMC/MiniSat.'
TECHNIQUE = 'bounded symbolic execution of the real code (LLVM IR -> irseq plain mode -> CBMC SAT): operation sequence, handle choice and starting counter are solver variables'
