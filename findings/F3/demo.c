/* F3 demonstration against the real headers: gcc -O1 -I/repo/include demo.c && ./a.out  (exit 1 = a plain store that initialised the
 * object was discarded before uatomic_inc/add, i.e. the result is not old+1) */
#define _LGPL_SOURCE
#include <urcu/uatomic.h>
#include <stdio.h>
struct cell { short s[4]; };
__attribute__((noinline)) int f(int i) {
  struct cell c; 
  c.s[0] = 1; c.s[1] = 2; c.s[2] = 3; c.s[3] = 4;
  c.s[i] = 0xff;
  uatomic_inc(&c.s[i]);
  return c.s[i];
}
__attribute__((noinline)) long g(void) {
  long x = 41;
  uatomic_inc(&x);
  return x;
}
__attribute__((noinline)) int h(void) {
  int x = 41;
  uatomic_add(&x, 1);
  return x;
}
int main(void) { int r = f(2); long q = g(); int z = h(); printf("%d %ld %d\n", r, q, z); return !(r == 0x100 && q == 42 && z == 42); }
