#!/usr/bin/env python3
"""Rewrite the seeded-changes table in DESIGN.md (between the markers) from seeded/*/meta.json."""
import json, os, glob
ROOT = os.path.dirname(os.path.dirname(os.path.abspath(__file__)))
rows = []
for d in sorted(glob.glob(os.path.join(ROOT, 'seeded', '*'))):
    mp = os.path.join(d, 'meta.json')
    if not os.path.exists(mp):
        continue
    m = json.load(open(mp))
    rows.append('| %s | %s | %s | %s |' % (m['id'], m['breaks_property'], m['needs_to_manifest'].replace('|', '/'), m['check_result'].replace('|', '/')))
tab = '| seed | property | what it needs to manifest | result of the registered check |\n|---|---|---|---|\n' + '\n'.join(rows) + '\n'
p = os.path.join(ROOT, 'DESIGN.md')
s = open(p).read()
a, b = '<!-- SEEDS-BEGIN -->', '<!-- SEEDS-END -->'
if a not in s:
    s = s.replace('\n## Appendix A', '\n## 9. Seeded changes (written by independent sub-agents) and which checks catch them\n\n'
                  'Each seed is `seeded/<id>/` (patch.diff, demo.c, notes.md, meta.json).  The sub-agents saw only the property text and a scratch worktree.  '
                  'Every seed was re-confirmed here with `tools/confirm_seed.sh` (builds, `make -k check` 674/674 pass, demo fails with / passes without) and '
                  'run against the checks with `tools/tryseed.sh` (scratch worktree + `VERIF_REPO`; /repo itself is never patched).\n\n' + a + '\n' + b + '\n\n## Appendix A')
i, j = s.index(a) + len(a), s.index(b)
s = s[:i] + '\n' + tab + s[j:]
open(p, 'w').write(s)
print(len(rows), 'rows')
