#!/usr/bin/env python3
"""audit helper: does any loop of the sequential oracle code (functions F0_*: prologue/epilogue) hit its unwinding bound?
Such a cut would silently drop executions from the oracle.  usage: unwind_audit.py <prop> <tier> <obligation-regex>"""
import sys, os, re, subprocess, importlib, tempfile, shutil, json
sys.path.insert(0, os.path.dirname(os.path.dirname(os.path.abspath(__file__))))
import check
prop, tier, pat = sys.argv[1:4]
mod = importlib.import_module('props.' + prop)
for ob in mod.obligations(tier):
    if not re.search(pat, ob['name']):
        continue
    work = tempfile.mkdtemp(prefix='verif-audit-')
    try:
        cfile, info = check.build_encoding(ob, work)
        cmd = [c for c in check.cbmc_cmd(ob, cfile, info=info) if c != '--no-unwinding-assertions'] + ['--unwinding-assertions']
        out = subprocess.run(cmd, capture_output=True, text=True).stdout
        bad = []
        try:
            for item in json.loads(out):
                for r in item.get('result', []) or []:
                    if '.unwind.' in r.get('property', '') and r.get('status') != 'SUCCESS' and r['property'].startswith('F0_'):
                        bad.append((r['property'], r.get('sourceLocation', {}).get('line')))
        except Exception as e:
            bad.append(('unparsable output', str(e)))
        print(ob['name'], 'ORACLE LOOPS CUT: %s' % bad if bad else 'oracle loops complete within their bounds')
    finally:
        shutil.rmtree(work, ignore_errors=True)
