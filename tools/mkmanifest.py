#!/usr/bin/env python3
"""Regenerate MANIFEST.json from props/*.py metadata.  A property is claimed iff props/<id>.py exists and has CLAIM=True."""
import importlib, json, os, sys
ROOT = os.path.dirname(os.path.dirname(os.path.abspath(__file__)))
sys.path.insert(0, ROOT); sys.path.insert(0, os.path.join(ROOT, 'irseq'))
ids = [json.loads(l)['id'] for l in open(os.path.join(ROOT, 'properties.jsonl'))]
checks = []; na = []
for pid in ids:
    try:
        m = importlib.import_module('props.' + pid)
    except ModuleNotFoundError:
        m = None
    if m is None or not getattr(m, 'CLAIM', False):
        na.append({'property_id': pid, 'reason': getattr(m, 'NA_REASON', 'no solver-based check built yet for this property in this tree; not claimed')})
        continue
    checks.append({
        'property_id': pid,
        'quick_cmd': './check.py %s --tier quick' % pid,
        'thorough_cmd': './check.py %s --tier thorough' % pid,
        'evidence_file': 'evidence/%s.json' % pid,
        'replay_cmd_template': './check.py replay {path}',
        'engine': 'irseq+cbmc',
        'level_claimed': {'category': 'model_checking', 'text': m.LEVEL_TEXT, 'design_ref': 'DESIGN.md section 3, ' + pid},
        'level_note': m.LEVEL_NOTE,
        'technique': getattr(m, 'TECHNIQUE', 'bounded symbolic execution of the real code (clang-14 LLVM IR -> irseq sequentialisation -> CBMC 6.11 SAT); schedules/inputs/faults are solver variables'),
    })
man = {
    'version': 1,
    'setup_cmd': './setup.sh',
    'hooks': {
        'guard': 'URCU_VERIF',
        'enable': '-DURCU_VERIF -DURCU_VERIF_<CONSTANT>=<value> on the clang-14 command line of each harness TU (harness TUs #include the real sources from /repo); nothing is built inside /repo',
        'baseline_off_cmd': 'make -C /repo -k check',
        'source_commits': ['1d3cb4099ead4e8400ee357c999ecddbeb1ff638', '764eee62c885285664eb4517bb1399088557a770'],
        'add_only': True,
    },
    'engines': [{'name': 'irseq+cbmc', 'path': 'check.py', 'serves_properties': [c['property_id'] for c in checks],
                 'kind_free_text': 'own LLVM-IR (clang-14 -O1) to C sequentialiser (resumable state machines, symbolic round-robin budgets, explicit x86-TSO store buffers, futex/mutex/membarrier stubs) discharged by CBMC 6.11 (MiniSat); counterexamples replayed natively from the recorded choices'}],
    'checks': checks,
    'not_applicable': na,
    'notes': 'See DESIGN.md. exit 2 from a check = inconclusive (timeout/unsupported construct/vacuous), never reported as pass.',
}
json.dump(man, open(os.path.join(ROOT, 'MANIFEST.json'), 'w'), indent=1)
print('claimed:', [c['property_id'] for c in checks])
