#!/bin/sh
# usage: confirm_seed.sh <seed-dir>
# Confirms a seeded change in a scratch worktree: applies, builds, runs the unit test suite, runs the demonstration with and without it.
sd=$(readlink -f "$1"); name=$(basename "$sd")
wt=$(mktemp -d /tmp/confwt.XXXXXX); rmdir "$wt"
git -C /repo worktree add -f "$wt" HEAD >/dev/null 2>&1 || exit 3
rsync -a --exclude .git --ignore-existing /repo/ "$wt"/
cd "$wt"
make -j4 >/dev/null 2>&1
run_demo() {
  rm -f "$wt/demo.bin"
  gcc -O1 -w -I"$wt/include" -I"$wt/src" "$sd/demo.c" -o "$wt/demo.bin" -L"$wt/src/.libs" -lurcu-mb -lurcu-memb -lurcu-qsbr -lurcu-bp -lurcu-common -lurcu-cds -lurcu -lpthread 2>/dev/null || { echo build-failed; return; }
  LD_LIBRARY_PATH="$wt/src/.libs" timeout 60 "$wt/demo.bin" >/dev/null 2>&1; echo "exit=$?"
}
base=$(run_demo)
git apply "$sd/patch.diff" || { echo "$name: patch does not apply"; cd /; git -C /repo worktree remove --force "$wt"; exit 1; }
make -j4 >/tmp/conf_make_$name.log 2>&1; mk=$?
find tests -name '*.log' -o -name '*.trs' | xargs rm -f
make -k check >/tmp/conf_check_$name.log 2>&1
tot=$(grep -E "^# (TOTAL|FAIL|ERROR)" /tmp/conf_check_$name.log | head -12 | awk '{printf "%s%s ", $2, $3}')
patched=$(run_demo)
echo "$name: make=$mk check=[$tot] demo_unpatched=$base demo_patched=$patched"
cd /; git -C /repo worktree remove --force "$wt"
