#!/usr/bin/env python3
"""debug helper: print the statements of `cbmc --program-only` that dereference integer-address memory only.
usage: ptsdbg.py <prop> <tier> <obligation> <cfile>"""
import sys, os, re, subprocess, importlib
sys.path.insert(0, os.path.dirname(os.path.dirname(os.path.abspath(__file__))))
sys.argv = sys.argv[:1] + sys.argv[1:]
import check
prop, tier, name, cfile = sys.argv[1:5]
mod = importlib.import_module('props.' + prop)
ob = [o for o in mod.obligations(tier) if o['name'] == name][0]
cmd = [c for c in check.cbmc_cmd(ob, cfile) if c != '--json-ui'] + ['--program-only']
p = subprocess.Popen(cmd, stdout=subprocess.PIPE, stderr=subprocess.DEVNULL, text=True, errors='replace')
cur = []; n = 0
start = re.compile(r'^\(\d+\) ')
def flush():
    global n
    st = ''.join(cur)
    if re.match(r'^\(\d+\) SHARED_(WRITE|READ)\(', st) or re.match(r'^\(\d+\) __CPROVER_memory#\d+ == (\(\S+ \? )?__CPROVER_memory#\d+( : __CPROVER_memory#\d+\))?\s*(\n\s*guard:[^\n]*)?(\n//[^\n]*)*\s*$', st):
        return
    if re.search(r'__CPROVER_memory(?!_leak)', st) and not ('__CPROVER_POINTER_OBJECT(&' in st or re.search(r'== &[A-Za-z_]', st)):
        n += 1
        if n <= int(os.environ.get('N', '12')):
            print(st[:1500]); print('-----')
for ln in p.stdout:
    if start.match(ln):
        flush(); cur = []
    if len(cur) < 200: cur.append(ln[:3000])
flush()
print('total', n)
