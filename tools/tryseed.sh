#!/bin/sh
# usage: tryseed.sh <patch> <property> [check.py args]
# Runs the check against a scratch worktree of /repo with the seeded change applied (VERIF_REPO), so /repo itself stays
# untouched and several seeds can be tried in parallel.  The worktree is removed afterwards.
patch=$(readlink -f "$1"); prop=$2; shift 2
wt=$(mktemp -d /tmp/seedwt.XXXXXX); rmdir "$wt"
git -C /repo worktree add -f "$wt" HEAD >/dev/null 2>&1 || exit 3
rsync -a --exclude .git --ignore-existing --exclude '*.o' --exclude '*.lo' --exclude '.libs' /repo/ "$wt"/
git -C "$wt" apply "$patch" || { git -C /repo worktree remove --force "$wt"; exit 3; }
VERIF_REPO="$wt" ./check.py $prop --no-evidence "$@" 2>&1 | grep -E "^\[|VIOLATION|KNOWN|INCONCLUSIVE" | cut -c1-220
git -C /repo worktree remove --force "$wt"
exit 0
