#!/usr/bin/env python3
"""Driver: ./check.py <PROPERTY> [--tier quick|thorough] [--only NAME] [--keep] [-j N]
           ./check.py replay <path>

For each obligation of the property: regenerate the encoding from /repo's working tree
(clang-14 -> LLVM IR -> irseq -> C), discharge it with CBMC, replay counterexamples natively,
write evidence/<PROPERTY>.json.  Exit 0: all obligations unsat and all witnesses reachable;
exit 1 + "VIOLATION property=<id> replay=<path>": replayed counterexample not in known-findings.txt;
exit 2: nothing could be decided (every obligation inconclusive).  Single inconclusive obligations (timeout, unsupported
construct, vacuous witness) are printed as INCONCLUSIVE and recorded in the evidence as not discharged -- never as a pass.
"""
import argparse
import concurrent.futures as cf
import importlib
import json
import os
import re
import resource
import shutil
import subprocess
import sys
import tempfile
import time
import traceback

ROOT = os.path.dirname(os.path.abspath(__file__))
sys.path.insert(0, os.path.join(ROOT, 'irseq'))
sys.path.insert(0, ROOT)
import gen as irgen            # noqa: E402
from ir import Unsupported     # noqa: E402

REPO = os.environ.get('VERIF_REPO', '/repo')
CLANG = 'clang-14'
BASE_CFLAGS = ['-O1', '-fno-vectorize', '-fno-slp-vectorize', '-fno-unroll-loops', '-Wno-everything',
               '-I' + os.path.join(ROOT, 'include'), '-I' + os.path.join(ROOT, 'harness'),
               '-I' + REPO + '/include', '-I' + REPO + '/src',
               '-include', REPO + '/include/config.h', '-DHAVE_CONFIG_H', '-DURCU_VERIF']
CBMC_BASE = ['cbmc', '--json-ui', '--no-malloc-may-fail', '--drop-unused-functions', '--object-bits', '10',
             '--no-signed-overflow-check', '--no-undefined-shift-check', '--no-pointer-primitive-check',
             '--verbosity', '8']


def sh(cmd, timeout=None, mem_gb=None, cwd=None, stdin=None):
    def lim():
        if mem_gb:
            b = int(mem_gb * (1 << 30))
            resource.setrlimit(resource.RLIMIT_AS, (b, b))
        os.setsid()
    t0 = time.time()
    try:
        p = subprocess.run(cmd, stdout=subprocess.PIPE, stderr=subprocess.PIPE, timeout=timeout,
                           preexec_fn=lim, cwd=cwd, input=stdin)
        return p.returncode, p.stdout.decode('utf-8', 'replace'), p.stderr.decode('utf-8', 'replace'), time.time() - t0
    except subprocess.TimeoutExpired as e:
        return -9, (e.stdout or b'').decode('utf-8', 'replace'), 'TIMEOUT', time.time() - t0


def build_encoding(ob, work):
    """clang -> IR -> irseq -> C.  returns (cfile, info)"""
    src = os.path.join(ROOT, 'harness', ob['src'])
    ll = os.path.join(work, ob['name'] + '.ll')
    inl = ['-mllvm', '-inline-threshold=100000'] if ob.get('inline_all', bool(ob.get('threads'))) else []
    cmd = [CLANG] + BASE_CFLAGS + inl + ob.get('cflags', []) + ['-S', '-emit-llvm', src, '-o', ll]
    rc, out, err, _ = sh(cmd, timeout=300)
    if rc != 0:
        raise Unsupported('clang failed: ' + err[-2000:])
    # further translation units of the repository (e.g. a bucket allocator), compiled separately and linked at IR level so that
    # file-static names cannot clash
    extra = ob.get('extra_srcs', [])
    if extra:
        parts = [ll]
        for i, e in enumerate(extra):
            esrc = e if os.path.isabs(e) else os.path.join(REPO, e)
            ell = os.path.join(work, '%s.x%d.ll' % (ob['name'], i))
            rc, out, err, _ = sh([CLANG] + BASE_CFLAGS + inl + ob.get('cflags', []) + ['-S', '-emit-llvm', esrc, '-o', ell], timeout=300)
            if rc != 0:
                raise Unsupported('clang failed on %s: %s' % (e, err[-2000:]))
            parts.append(ell)
        linked = os.path.join(work, ob['name'] + '.linked.ll')
        rc, out, err, _ = sh(['llvm-link-14', '-S', '-o', linked] + parts, timeout=300)
        if rc != 0:
            raise Unsupported('llvm-link failed: ' + err[-2000:])
        ll = linked
    txt, info = irgen.generate(ob, open(ll).read())
    cfile = os.path.join(work, ob['name'] + '.c')
    open(cfile, 'w').write(txt)
    info['ir_lines'] = sum(1 for _ in open(ll))
    return cfile, info


def pointsto_guard(cmd, timeout, mem_gb):
    """run `cbmc --program-only` and classify, statement by statement and without keeping the (multi-GB) text, every access that
    CBMC resolved to its integer-address memory: returns (rc, accesses resolving to it alone, accesses that keep real objects, wall)"""
    def lim():
        b = int(mem_gb * (1 << 30))
        resource.setrlimit(resource.RLIMIT_AS, (b, b))
        os.setsid()
    t0 = time.time()
    p = subprocess.Popen(cmd, stdout=subprocess.PIPE, stderr=subprocess.DEVNULL, preexec_fn=lim, text=True, errors='replace')
    cnt = [0, 0]
    cur = []
    pat = re.compile(r'__CPROVER_memory(?!_leak)')
    start = re.compile(r'^\(\d+\) ')
    event = re.compile(r'^\(\d+\) SHARED_(WRITE|READ)\(')
    merge = re.compile(r'^\(\d+\) __CPROVER_memory#\d+ == [\s()!&|?:]*((\\guard#\d+|__CPROVER_memory#\d+|TRUE|FALSE)[\s()!&|?:]*)+(\n\s*guard:[^\n]*)?(\n//[^\n]*)*\s*$')

    def flush():
        if not cur:
            return
        st = ''.join(cur)
        k = len(pat.findall(st))
        # not accesses themselves: the shared-access event of an access classified on its own statement, and the merge of two
        # versions of the fallback memory at a control-flow join
        if k and (event.match(st) or merge.match(st)):
            k = 0
        if k:
            # a dereference whose case split still lists real objects besides the integer-address fallback (legal when a guarded
            # sentinel such as (void *)-1 is in the points-to set) vs one that resolves to the fallback alone
            if '__CPROVER_POINTER_OBJECT(&' in st or re.search(r'== &[A-Za-z_]', st):
                cnt[1] += k
            else:
                cnt[0] += k
        del cur[:]
    rc = 0
    try:
        for ln in p.stdout:
            if time.time() - t0 > timeout:
                rc = -9
                break
            if start.match(ln):
                flush()
            if len(cur) < 4000:
                cur.append(ln)
        flush()
    finally:
        if p.poll() is None:
            try:
                os.killpg(p.pid, 9)
            except Exception:
                p.kill()
        p.wait()
    return rc, cnt[0], cnt[1], time.time() - t0


def loop_bounds(ob, cfile, info=None):
    """per-loop unwinding: runtime (rt/) loops get a bound covering slots/buffer depth; translated code gets ob['unwind'];
    ob['unwind_fn'] = {regex on function name: bound} overrides."""
    rc, out, err, _ = sh(['cbmc', '--show-loops', '--json-ui', '--drop-unused-functions', '-DWITNESS', cfile], timeout=300)
    loops = re.findall(r'"name":\s*"([^"]+)",\s*"sourceLocation":\s*\{\s*"file":\s*"([^"]*)",\s*"function":\s*"([^"]*)"', out)
    rtb = ob.get('rt_unwind', ob.get('nslots', 1) + ob.get('tso', 0) + 4)
    res = []
    # per-loop classes recorded by the emitter (wait loops yield in every iteration: a small bound loses nothing)
    cls = {}
    if info:
        byfn = {}
        for name, fil, fn in loops:
            byfn.setdefault(fn, []).append(name)
        for inst in info.get('instances', {}).values():
            cn = inst.get('cname'); lp = inst.get('loops', '')
            if cn in byfn and len(byfn[cn]) == len(lp):
                for nm, c in zip(byfn[cn], lp):
                    cls[nm] = c
    uw = ob.get('unwind_wait', 3)
    for name, fil, fn in loops:
        b = None
        if cls.get(name) == 'w' and fn.startswith('T'):
            b = uw
        for rx, v in ob.get('unwind_fn', {}).items():
            if re.search(rx, fn):
                b = v
        if b is None and ('/rt/' in fil or fn.startswith('rt_') or fn.startswith('P_')):
            b = rtb
        if b is not None:
            res.append('%s:%d' % (name, b))
    return res


def cbmc_cmd(ob, cfile, extra=(), info=None):
    cmd = list(CBMC_BASE)
    cmd += ['--unwind', str(ob.get('unwind', 4))]
    if ob.get('unwinding_assertions', False) or ob.get('unwind_assert_fn'):
        cmd += ['--unwinding-assertions']
    else:
        cmd += ['--no-unwinding-assertions']
    lb = loop_bounds(ob, cfile, info)
    if lb:
        cmd += ['--unwindset', ','.join(lb)]
    cmd += ob.get('cbmc_flags', [])
    cmd += list(extra)
    cmd += ['-DWITNESS', cfile]
    return cmd


def parse_cbmc_json(out):
    try:
        data = json.loads(out)
    except Exception:
        # truncated output: try to salvage
        return None, 'unparsable cbmc output'
    results = None
    msgs = []
    status = None
    for item in data:
        if 'result' in item:
            results = item['result']
        if 'messageText' in item:
            msgs.append(item['messageText'])
        if 'cProverStatus' in item:
            status = item['cProverStatus']
    return {'results': results, 'messages': msgs, 'status': status}, None


import threading
MEM_TOTAL_GB = float(os.environ.get('VERIF_MEM_GB', '52'))
_mem_cv = threading.Condition()
_mem_used = [0.0]


def run_obligation(ob, workroot, keep=False):
    """admission control: the sum of the memory limits of running obligations stays below the machine's RAM
    (the kernel OOM killer otherwise takes solvers down, which would read as a timeout)"""
    need = min(float(ob.get('mem_gb', 12)) * 1.3, MEM_TOTAL_GB)     # query + points-to guard
    with _mem_cv:
        while _mem_used[0] + need > MEM_TOTAL_GB and _mem_used[0] > 0:
            _mem_cv.wait()
        _mem_used[0] += need
    try:
        return _run_obligation(ob, workroot, keep)
    finally:
        with _mem_cv:
            _mem_used[0] -= need
            _mem_cv.notify_all()


def _run_obligation(ob, workroot, keep=False):
    """returns a result dict"""
    t0 = time.time()
    res = {'name': ob['name'], 'desc': ob.get('desc', ''), 'bounds': ob.get('bounds', {}), 'verdict': None,
           'failures': [], 'witnesses': {}, 'solver_s': None}
    work = os.path.join(workroot, ob['name'])
    os.makedirs(work, exist_ok=True)
    try:
        cfile, info = build_encoding(ob, work)
    except Unsupported as e:
        res['verdict'] = 'inconclusive'; res['reason'] = 'encoding: %s' % e
        res['wall_s'] = time.time() - t0
        return res
    except Exception as e:
        res['verdict'] = 'inconclusive'; res['reason'] = 'encoder crash: %s' % traceback.format_exc()[-1500:]
        res['wall_s'] = time.time() - t0
        return res
    res['encoding'] = {'instances': info['instances'], 'ir_lines': info['ir_lines'],
                       'primitives': info['primitives'], 'warnings': info['warnings']}
    cmd = cbmc_cmd(ob, cfile, info=info)
    # fail-closed guard (DESIGN 2.2): a dereference that CBMC resolves to its integer-address memory would be a
    # silently lost access; symbolic execution only (no solving), run concurrently with the real query
    guard = cf.ThreadPoolExecutor(max_workers=1)
    gfut = guard.submit(pointsto_guard, [c for c in cmd if c != '--json-ui'] + ['--program-only'], ob.get('timeout', 600), ob.get('mem_gb', 12))
    rc, out, err, wall = sh(cmd, timeout=ob.get('timeout', 600), mem_gb=ob.get('mem_gb', 12))
    grc, nlost, nalt, gwall = gfut.result()
    guard.shutdown()
    res['pointsto_guard'] = {'integer_address_only_accesses': nlost, 'accesses_with_fallback_branch': nalt, 'symex_s': round(gwall, 1)}
    if nalt and not ob.get('intaddr_ok'):
        nlost += nalt
    if grc == -9 or nlost:
        res['verdict'] = 'inconclusive'
        res['reason'] = ('points-to guard: %d dereference(s) fell back to integer-address memory' % nlost) if nlost else 'points-to guard timed out'
        res['wall_s'] = time.time() - t0
        return res
    res['cbmc_wall_s'] = round(wall, 2)
    if rc == -9:
        res['verdict'] = 'inconclusive'
        res['reason'] = 'cbmc killed after %.0fs (time limit %ds, or SIGKILL from the kernel)' % (wall, ob.get('timeout', 600))
        res['wall_s'] = time.time() - t0
        return res
    parsed, perr = parse_cbmc_json(out)
    if parsed is None or parsed['results'] is None:
        res['verdict'] = 'inconclusive'
        errs = ' | '.join(re.findall(r'"messageText": "([^"]*)",\s*"messageType": "ERROR"', out))
        res['reason'] = 'cbmc gave no result (rc=%d): %s %s' % (rc, perr or '', errs or (out[-600:] + err[-300:]))
        res['wall_s'] = time.time() - t0
        return res
    for m in parsed['messages']:
        mm = re.search(r'Runtime Solver: ([0-9.]+)s', m)
        if mm:
            res['solver_s'] = (res['solver_s'] or 0) + float(mm.group(1))
        mm = re.search(r'(\d+) variables, (\d+) clauses', m)
        if mm:
            res['sat_vars'] = int(mm.group(1)); res['sat_clauses'] = int(mm.group(2))
        mm = re.search(r'size of program expression: (\d+) steps', m)
        if mm:
            res['program_steps'] = int(mm.group(1))
    nprops = 0
    undecided = 0
    for r in parsed['results']:
        d = r.get('description', '')
        st = r.get('status')
        if d.startswith('WITNESS '):
            res['witnesses'][d[8:]] = (st == 'FAILURE')   # reachable
        elif ob.get('unwind_assert_fn') and '.unwind.' in (r.get('property') or '') and not re.search(ob['unwind_assert_fn'], r.get('property')):
            # unwinding assertions are requested for some functions only (the operation under test of a progress obligation: more
            # iterations than the bound inside ONE uninterrupted turn is non-completion); the per-turn truncation of every other
            # loop is the stated bound of the exploration, not a property
            continue
        else:
            nprops += 1
            if st == 'FAILURE':
                res['failures'].append({'property': r.get('property'), 'description': d, 'status': st,
                                        'location': r.get('sourceLocation', {}).get('line')})
            elif st != 'SUCCESS':
                undecided += 1
    res['properties_checked'] = nprops
    if undecided and not res['failures']:
        # the solver stopped (memory / time) before deciding every property: neither a proof nor a counterexample
        res['verdict'] = 'inconclusive'
        errs = ' | '.join(m for m in parsed['messages'] if 'memory' in m.lower() or 'error' in m.lower())
        res['reason'] = 'cbmc left %d of %d properties undecided (rc=%d) %s' % (undecided, nprops, rc, errs[:300])
        res['wall_s'] = time.time() - t0
        return res
    if res['failures']:
        res['verdict'] = 'violated'
        # obtain a trace and replay it natively; failures of the harness/runtime oracles first (a failed pointer check alone is
        # undefined behaviour that a native run does not observe), at most three candidates
        cands = sorted(res['failures'], key=lambda f: 0 if '.assertion.' in f['property'] else 1)[:3]
        res['cfile'] = cfile
        first = None
        for f0 in cands:
            if '.unwind.' in f0['property']:
                # unwinding assertions are created during symbolic execution: --property cannot select them; take the trace from a full run
                cmd2 = cbmc_cmd(ob, cfile, extra=['--trace'], info=info)
            else:
                cmd2 = cbmc_cmd(ob, cfile, extra=['--property', f0['property'], '--trace'], info=info)
            rc2, out2, err2, wall2 = sh(cmd2, timeout=ob.get('timeout', 600), mem_gb=ob.get('mem_gb', 12))
            choices = extract_choices(out2, f0['property'] if '.unwind.' in f0['property'] else None)
            if first is None:
                first = (f0, choices)
            if choices is None:
                continue
            ok, log = native_replay(ob, cfile, choices, work, res['failures'])
            if ok:
                first = (f0, choices)
                res['replay_pre'] = (True, log)
                break
            res.setdefault('replay_pre', (False, log))
        f0, choices = first
        res['trace_choices'] = choices
        res['failures'] = [f0] + [f for f in res['failures'] if f is not f0]
    else:
        need = ob.get('witnesses')
        if need is None:
            missing = [w for w, ok in res['witnesses'].items() if not ok]
        else:
            # the obligation names the witnesses it depends on; other coverage points are reported but not required
            missing = [w for w in need if w in res['witnesses'] and not res['witnesses'][w]]
            missing += [w + ' (absent)' for w in need if w not in res['witnesses']]
        if missing:
            res['verdict'] = 'inconclusive'
            res['reason'] = 'vacuous: witness not reachable: %s' % ', '.join(missing)
        else:
            res['verdict'] = 'holds'
    if not keep and res['verdict'] == 'holds':
        shutil.rmtree(work, ignore_errors=True)
    res['wall_s'] = round(time.time() - t0, 2)
    return res


def extract_choices(out, prop=None):
    """ordered list of nondeterministic choices from a cbmc --trace --json-ui output (of property prop when several traces are present)"""
    try:
        data = json.loads(out)
    except Exception:
        return None
    ch = []
    for item in data:
        if 'result' not in item:
            continue
        for r in item['result']:
            if prop is not None and r.get('property') != prop:
                continue
            for st in r.get('trace', []) or []:
                if st.get('stepType') == 'assignment' and st.get('lhs') == 'rt_choice_v' and not st.get('hidden'):
                    v = st.get('value', {})
                    d = v.get('data')
                    try:
                        if v.get('binary'):
                            ch.append(int(v['binary'], 2))
                        else:
                            ch.append(int(d))
                    except Exception:
                        ch.append(0)
    return ch


# ----------------------------------------------------------------------------- replay
def native_replay(ob, cfile, choices, work, failures=()):
    """compile the generated C natively and re-execute the recorded schedule/inputs.
    returns (reproduced: bool, log)"""
    rp = os.path.join(work, 'replay_vals.c')
    with open(rp, 'w') as f:
        f.write('unsigned long long rt_replay_vals[] = {%s};\nunsigned rt_replay_n = %d;\n' %
                (', '.join('%dULL' % c for c in choices) or '0', len(choices)))
    exe = os.path.join(work, 'replay.exe')
    rc, out, err, _ = sh(['gcc', '-O0', '-w', '-DIRSEQ_NATIVE', '-DWITNESS_OFF', '-o', exe, cfile, rp], timeout=300)
    if rc != 0:
        return False, 'native build failed: ' + err[-1500:]
    rc, out, err, _ = sh([exe], timeout=20)
    if rc == -9 and any('unwinding assertion' in (f.get('description') or '') for f in failures):
        # the counterexample is a loop that exceeds every bound the unchanged tree needs: natively it simply does not return
        return True, 'native run of the recorded inputs did not terminate within 20 s (non-termination reproduced) ' + out[-500:]
    if rc in (-11, -7):
        # the recorded schedule makes the real code fault natively (wild / NULL dereference): that is the violation, observed outside CBMC
        return True, 'native run of the recorded schedule died with signal %d (memory fault reproduced) %s' % (-rc, out[-500:])
    return (rc == 42), 'rc=%d %s %s' % (rc, out[-1500:], err[-300:])


# ----------------------------------------------------------------------------- known findings
def load_known():
    known = []; fixed = []
    p = os.path.join(ROOT, 'known-findings.txt')
    if os.path.exists(p):
        for ln in open(p):
            ln = ln.strip()
            if not ln or ln.startswith('#'):
                continue
            m = re.match(r'^(known|fixed):\s+property=(\S+)\s+(.*)$', ln)
            if m:
                (known if m.group(1) == 'known' else fixed).append((m.group(2), m.group(3)))
    return known, fixed


def main():
    ap = argparse.ArgumentParser()
    ap.add_argument('prop')
    ap.add_argument('path', nargs='?')
    ap.add_argument('--tier', default=os.environ.get('VERIF_TIER', 'quick'))
    ap.add_argument('--only', default=None)
    ap.add_argument('--keep', action='store_true')
    ap.add_argument('-j', type=int, default=int(os.environ.get('VERIF_JOBS', '16')))
    ap.add_argument('--no-evidence', action='store_true')
    a = ap.parse_args()
    if a.prop == 'replay':
        return replay_cmd(a.path)
    seed = int(os.environ.get('VERIF_SEED', '0') or 0)
    mod = importlib.import_module('props.' + a.prop)
    obs = mod.obligations(a.tier)
    if a.only:
        obs = [o for o in obs if re.search(a.only, o['name'])]
    workroot = tempfile.mkdtemp(prefix='verif-%s-' % a.prop, dir=os.environ.get('TMPDIR', '/tmp'))
    t0 = time.time()
    results = []
    try:
        # cheapest first is not known; run in declared order, widest pool
        with cf.ThreadPoolExecutor(max_workers=a.j) as ex:
            futs = {ex.submit(run_obligation, o, workroot, a.keep): o for o in obs}
            for fu in cf.as_completed(futs):
                o = futs[fu]
                try:
                    r = fu.result()
                except Exception:
                    r = {'name': o['name'], 'verdict': 'inconclusive', 'reason': traceback.format_exc()[-1500:]}
                results.append(r)
                print('[%s] %-34s %-12s %6.1fs  %s' % (a.prop, r['name'], r['verdict'], r.get('wall_s', 0),
                                                      r.get('reason', '')[:300] if r['verdict'] != 'holds' else ''),
                      flush=True)
        known, fixed = load_known()
        obmap = {o['name']: o for o in obs}
        violations = []
        known_hits = []
        inconcl = [r for r in results if r['verdict'] == 'inconclusive']
        os.makedirs(os.path.join(ROOT, 'replays'), exist_ok=True)
        for r in results:
            if r['verdict'] != 'violated':
                continue
            ob = obmap[r['name']]
            sig = '%s: %s' % (r['name'], r['failures'][0]['description'])
            rep_ok, rep_log = (False, 'no trace')
            if r.get('replay_pre') is not None:
                rep_ok, rep_log = r['replay_pre']
            elif r.get('trace_choices') is not None:
                rep_ok, rep_log = native_replay(ob, r['cfile'], r['trace_choices'], os.path.dirname(r['cfile']), r['failures'])
            r['replay'] = {'reproduced': rep_ok, 'log': rep_log[-600:]}
            path = os.path.join(ROOT, 'replays', '%s-%s.json' % (a.prop, r['name']))
            spec_dump = {k: v for k, v in ob.items() if not callable(v)}
            json.dump({'property': a.prop, 'obligation': r['name'], 'failed': r['failures'], 'signature': sig,
                       'choices': r.get('trace_choices'), 'spec': spec_dump, 'tier': a.tier,
                       'reproduced_natively': rep_ok, 'replay_log': rep_log[-2000:]}, open(path, 'w'), indent=1)
            r['replay_path'] = path
            kh = [k for k in known if k[0] == a.prop and k[1].split(' -- ')[0].strip() in sig]
            if kh:
                known_hits.append((r, kh[0]))
            elif not rep_ok:
                r['verdict'] = 'inconclusive'
                r['reason'] = 'counterexample did not reproduce natively: ' + rep_log[-300:]
                inconcl.append(r)
            else:
                violations.append(r)
        for r, k in known_hits:
            print('KNOWN-FINDING: property=%s %s' % (a.prop, k[1]))
        for r in violations:
            print('VIOLATION property=%s replay=%s' % (a.prop, r['replay_path']))
            print('  obligation %s: %s' % (r['name'], '; '.join(f['description'] for f in r['failures'][:3])))
        wall = time.time() - t0
        if not a.no_evidence and not a.only:
            write_evidence(a.prop, a.tier, seed, mod, obs, results, wall, len(violations), known_hits)
        for r in inconcl:
            print('INCONCLUSIVE %s: %s' % (r['name'], r.get('reason', '')[:500]))
        if violations:
            return 1
        # Interface: exit 0 = the property held on everything that was explored.  Obligations without a verdict (time/memory cap,
        # unsupported construct, vacuous witness) are listed as INCONCLUSIVE above and in the evidence and are never counted as
        # discharged; the run only fails (exit 2) when nothing at all could be decided.
        if inconcl and not any(r['verdict'] == 'holds' for r in results):
            return 2
        return 0
    finally:
        if not a.keep:
            shutil.rmtree(workroot, ignore_errors=True)
        else:
            print('kept', workroot)


def write_evidence(prop, tier, seed, mod, obs, results, wall, nviol, known_hits):
    holds = [r for r in results if r['verdict'] == 'holds']
    funcs = {}
    for r in results:
        for k, v in (r.get('encoding', {}).get('instances', {}) or {}).items():
            funcs.setdefault(v['function'], {'ir_instructions': v['ir_instructions'],
                                             'visible_steps': v['visible_steps']})
    nontrivial = [r for r in holds if r.get('witnesses') and all(r['witnesses'].values())]
    samples = []
    for r in sorted(results, key=lambda x: x['name'])[:40]:
        samples.append({'obligation': r['name'], 'what': r.get('desc', ''), 'bounds': r.get('bounds', {}),
                        'verdict': r['verdict'], 'assertions_checked': r.get('properties_checked'),
                        'witnesses': r.get('witnesses'), 'sat_vars': r.get('sat_vars'),
                        'sat_clauses': r.get('sat_clauses'), 'solver_s': r.get('solver_s'),
                        'cbmc_wall_s': r.get('cbmc_wall_s')})
    ev = {
        'property_id': prop, 'tier': tier, 'seed': seed, 'level': 'model_checking',
        'coverage': {
            'evaluations': len(results),
            'distinct_nontrivial': len(nontrivial),
            'rule': 'one evaluation = one solver query (CBMC/MiniSat) over an obligation: the real functions '
                    'listed under functions_encoded, translated from the LLVM IR of /repo\'s working tree, with '
                    'the schedule / inputs / faults symbolic inside the stated bounds; non-trivial = verdict '
                    'unsat for every assertion AND every reachability/coverage witness of the obligation shown '
                    'reachable by the same query; obligations are distinct by name',
            'samples': samples,
            'functions_encoded': funcs,
            'states': max(1, sum((r.get('program_steps') or 0) for r in results)),
            'transitions': max(1, sum((r.get('sat_clauses') or 0) for r in results)),
            'traces_validated_against_impl': sum(1 for r in results if r.get('replay', {}).get('reproduced')),
            'states_transitions_meaning': 'states = SSA steps of the symbolic executions (size of program expression, summed over the queries); '
                                          'transitions = CNF clauses handed to the SAT solver (summed); traces_validated = counterexample traces '
                                          're-executed natively in this run',
            'queries_discharged': len(holds),
            'queries_total': len(results),
            'solver_seconds': round(sum((r.get('solver_s') or 0) for r in results), 2),
            'explanation': getattr(mod, 'EXPLANATION', ''),
            'outside_bounds': getattr(mod, 'OUTSIDE', ''),
            'known_findings_reported': [k[1] for _, k in known_hits],
            'exhaustive': False,
        },
        'assumptions': getattr(mod, 'ASSUMPTIONS', []) + [
            'clang-14 -O1 lowering of the real sources (gcc builds the shipped library)',
            'irseq translator and x86 asm semantics table (rt/, irseq/asmtab.py)',
            'environment stubs of rt/rt.h (mutex, futex, membarrier, poll, allocation never fails)',
            'CBMC 6.11 + MiniSat; bounds as listed per obligation; spin loops truncated per turn without unwinding assertions',
        ],
        'wall_s': round(wall, 2),
        'violations': nviol,
    }
    os.makedirs(os.path.join(ROOT, 'evidence'), exist_ok=True)
    json.dump(ev, open(os.path.join(ROOT, 'evidence', prop + '.json'), 'w'), indent=1)


def replay_cmd(path):
    d = json.load(open(path))
    ob = d['spec']
    work = tempfile.mkdtemp(prefix='verif-replay-', dir=os.environ.get('TMPDIR', '/tmp'))
    try:
        cfile, info = build_encoding(ob, work)
        ok, log = native_replay(ob, cfile, d.get('choices') or [], work)
        print(log)
        print('REPRODUCED' if ok else 'NOT-REPRODUCED')
        return 0 if ok else 1
    finally:
        shutil.rmtree(work, ignore_errors=True)


if __name__ == '__main__':
    sys.exit(main())
