/* Runtime for irseq-generated code (DESIGN 2.3-2.6).  Included by the generated C file after
 * the type definitions and globals.  Compiled by CBMC (symbolic) and by gcc (-DIRSEQ_NATIVE,
 * replay of a recorded counterexample).
 *
 * Configuration macros set by the generator:
 *   RT_NSLOTS        number of thread slots (slot 0 = sequential prologue/epilogue)
 *   RT_TSO           store-buffer depth (0/undefined = SC)
 *   RT_FAULTS        futex fault budget (spurious/EINTR returns)
 *   RT_FUTEX_ENOSYS  1: futex() returns ENOSYS
 *   RT_MEMBARRIER    0: sys_membarrier unavailable, 1: available
 */
#ifndef RT_NSLOTS
#define RT_NSLOTS 1
#endif
#ifndef RT_TSO
#define RT_TSO 0
#endif
#ifndef RT_FAULTS
#define RT_FAULTS 0
#endif
#ifndef RT_FUTEX_ENOSYS
#define RT_FUTEX_ENOSYS 0
#endif
#ifndef RT_MEMBARRIER
#define RT_MEMBARRIER 1
#endif

#define RT_DONE 0x7fffffffu
enum { RT_RUN = 0, RT_SKIP = 1, RT_STOP = 2 };   /* modes of a resumable (walk scheme) thread function */

/* ------------------------------------------------------------------ nondeterminism / assertions */
#ifdef IRSEQ_NATIVE
#include <stdio.h>
#include <stdlib.h>
#include <string.h>
extern unsigned long long rt_replay_vals[];
extern unsigned rt_replay_n;
static unsigned rt_replay_i;
static uint64_t rt_choice(void) {
  if (rt_replay_i >= rt_replay_n) return 0;
  return rt_replay_vals[rt_replay_i++];
}
static void rt_fail(const char *msg) { printf("REPLAY-FAIL: %s\n", msg); fflush(stdout); exit(42); }
#define RT_ASSERT(c, msg) do { if (!(c)) rt_fail(msg); } while (0)
#define RT_ASSUME(c) do { if (!(c)) { printf("REPLAY-ASSUME-FALSE: %s\n", #c); exit(43); } } while (0)
#define RT_COVER(c, msg) do { if (c) { printf("REPLAY-COVER: %s\n", msg); } } while (0)
#else
uint64_t nondet_u64raw(void);
/* every nondeterministic choice goes through rt_choice so that a counterexample trace lists them in order */
static uint64_t rt_choice(void) { uint64_t rt_choice_v = nondet_u64raw(); return rt_choice_v; }
#define RT_ASSERT(c, msg) __CPROVER_assert((c), msg)
#define RT_ASSUME(c) __CPROVER_assume(c)
#ifdef WITNESS
#define RT_COVER(c, msg) __CPROVER_assert(!(c), "WITNESS " msg)
#else
#define RT_COVER(c, msg) ((void)0)
#endif
void *malloc(__CPROVER_size_t);
void *calloc(__CPROVER_size_t, __CPROVER_size_t);
void free(void *);
void *memset(void *, int, __CPROVER_size_t);
void *memcpy(void *, const void *, __CPROVER_size_t);
#endif
#define nondet_uint() ((unsigned)rt_choice())
#define nondet_bool() ((_Bool)(rt_choice() & 1))
#define nondet_u64() ((uint64_t)rt_choice())

/* sequential (plain-mode) code reached a busy-wait hint: nobody else runs, so it would wait forever */
#define RT_SPIN_PLAIN() do { RT_ASSERT(0, "sequential code reached a busy-wait: it would wait forever (lost link / lost wake-up)"); RT_ASSUME(0); } while (0)
#ifndef RT_NGHOST
#define RT_NGHOST 64
#endif
static uint64_t rt_ghost[RT_NGHOST];   /* harness ghost state: written/read without being a scheduling point or a buffered store */
#ifndef RT_NBANK
#define RT_NBANK 6
#endif
#ifndef RT_BANKSZ
#define RT_BANKSZ 8
#endif
static uint32_t rt_gbank[RT_NBANK][RT_BANKSZ];   /* small ghost arrays that may be indexed symbolically */
static uint8_t rt_clock;          /* logical clock for harness stamps */
#define RT_BLOCK_PLAIN() do { if (rt_block) { rt_block = 0; RT_ASSERT(0, "sequential code blocks forever (mutex/futex/join with nobody left to release it)"); RT_ASSUME(0); } } while (0)
#define RT_UNREACHABLE() RT_ASSERT(0, "unreachable executed")
#define RT_ABORT(msg) RT_ASSERT(0, "library abort: " msg)

/* ------------------------------------------------------------------ scheduler state */
static _Bool rt_solo;               /* solo turn: the running thread is never preempted */
#define RT_YIELD() (!rt_solo && nondet_bool())
static _Bool rt_block;
static _Bool rt_blocked[RT_NSLOTS];
static _Bool rt_sigblocked[RT_NSLOTS];     /* thread has all signals blocked (pthread_sigmask) */
static _Bool rt_ever_waited[RT_NSLOTS];   /* the thread executed a busy-wait hint or blocked in a primitive at least once */
static _Bool rt_spun[RT_NSLOTS];      /* last turn ended in a busy-wait hint */
static _Bool rt_active[RT_NSLOTS];
static int rt_cur;
static uint32_t rt_errno[RT_NSLOTS];
enum { RT_W_NONE, RT_W_MUTEX, RT_W_FUTEX, RT_W_JOIN, RT_W_USER };
static uint8_t rt_wait_kind[RT_NSLOTS];
static void *rt_wait_obj[RT_NSLOTS];
static uint64_t rt_wait_val[RT_NSLOTS];
static uint32_t rt_steps;          /* global logical clock (turn starts + primitive calls) */

/* ------------------------------------------------------------------ memory model */
#if RT_TSO
struct rt_sbent { void *addr; uint64_t val; void *pval; uint8_t sz; };
static struct rt_sbent rt_sb[RT_NSLOTS][RT_TSO];
static uint8_t rt_sbc[RT_NSLOTS];
static inline void rt_sb_commit(struct rt_sbent *e) {
  switch (e->sz) {
  case 0: *(void **)e->addr = e->pval; break;
  case 1: *(uint8_t *)e->addr = (uint8_t)e->val; break;
  case 2: *(uint16_t *)e->addr = (uint16_t)e->val; break;
  case 4: *(uint32_t *)e->addr = (uint32_t)e->val; break;
  default: *(uint64_t *)e->addr = e->val; break;
  }
}
static inline void rt_sb_flush_one(int t) {
  rt_sb_commit(&rt_sb[t][0]);
  for (int i = 0; i + 1 < RT_TSO; i++) rt_sb[t][i] = rt_sb[t][i + 1];
  rt_sbc[t]--;
}
static inline void rt_sb_drain(int t) {
  for (int i = 0; i < RT_TSO; i++) if (rt_sbc[t] > 0) rt_sb_flush_one(t);
}
static inline void rt_sb_flush_some(int t) {
  unsigned n = nondet_uint();
  for (int i = 0; i < RT_TSO; i++) if ((unsigned)i < n && rt_sbc[t] > 0) rt_sb_flush_one(t);
}
static inline void rt_sb_put(int t, void *addr, uint64_t val, void *pval, uint8_t sz) {
  if (rt_sbc[t] == RT_TSO) rt_sb_flush_one(t);
  struct rt_sbent *e = &rt_sb[t][rt_sbc[t]];
  e->addr = addr; e->val = val; e->pval = pval; e->sz = sz;
  rt_sbc[t]++;
}
static inline int rt_sb_find(int t, void *addr) {
  for (int i = RT_TSO - 1; i >= 0; i--) if (i < rt_sbc[t] && rt_sb[t][i].addr == addr) return i;
  return -1;
}
static _Bool rt_mb_pending[RT_NSLOTS][RT_NSLOTS];   /* [caller][target] */
static uint8_t rt_mb_state[RT_NSLOTS];
static inline void rt_mb_ack(int t) {
  if (rt_sbc[t] == 0) for (int c = 0; c < RT_NSLOTS; c++) rt_mb_pending[c][t] = 0;
}
#define RT_FENCE(t) do { rt_sb_drain(t); rt_mb_ack(t); } while (0)
#define RT_STEP(t) do { rt_sb_flush_some(t); rt_mb_ack(t); } while (0)
#define RT_TURN_BEGIN(t) RT_STEP(t)
#else
#define RT_FENCE(t) ((void)0)
#define RT_STEP(t) ((void)0)
#define RT_TURN_BEGIN(t) ((void)0)
static inline void rt_sb_drain(int t) { (void)t; }
#endif

/* ------------------------------------------------------------------ helpers used by generated code */
static inline uint64_t RT_BSR64(uint64_t x) {
  if (x == 0) return (uint64_t)-1;
  uint64_t r = 0;
  if (x & 0xffffffff00000000ULL) { x >>= 32; r += 32; }
  if (x & 0xffff0000ULL) { x >>= 16; r += 16; }
  if (x & 0xff00ULL) { x >>= 8; r += 8; }
  if (x & 0xf0ULL) { x >>= 4; r += 4; }
  if (x & 0xcULL) { x >>= 2; r += 2; }
  if (x & 0x2ULL) { r += 1; }
  return r;
}
static inline uint32_t RT_BSR32(uint32_t x) {
  if (x == 0) return (uint32_t)-1;
  return (uint32_t)RT_BSR64(x);
}

#ifdef IRSEQ_NATIVE
#define RT_ALLOC(sz, z) ((z) ? calloc(1, (sz)) : malloc(sz))
#define RT_FREE(p) rt_free(p)
static void *rt_freed[64]; static int rt_nfreed;
static void rt_free(void *p) { if (rt_nfreed < 64) rt_freed[rt_nfreed++] = p; /* quarantine: never reuse */ }
#else
#define RT_ALLOC(sz, z) ((z) ? calloc(1, (sz)) : malloc(sz))
#define RT_FREE(p) free(p)
#endif
#define RT_MEMSET(p, c, n) memset((p), (int)(c), (n))
#define RT_MEMCPY(d, s, n) memcpy((d), (s), (n))

static _Bool rt_done_slot(int t);
/* ------------------------------------------------------------------ primitives: failure */
static void P_abort(void) { RT_ABORT("abort()"); }
static void P___assert_fail(void *a, void *b, uint32_t c, void *d) {
  (void)a; (void)b; (void)c; (void)d; RT_ABORT("assertion in library code failed"); }
static void P___irseq_bad_indirect(void) { RT_ASSERT(0, "indirect call to a function outside the candidate set"); }
static void *P___errno_location(void) { return &rt_errno[rt_cur]; }

/* ------------------------------------------------------------------ primitives: mutex (state lives in the object) */
static uint32_t P_pthread_mutex_init(void *m, void *attr) { (void)attr; *(uint32_t *)m = 0; return 0; }
static uint32_t P_pthread_mutex_destroy(void *m) {
  RT_ASSERT(*(uint32_t *)m == 0, "pthread_mutex_destroy on a locked mutex"); return 0; }
static uint32_t P_pthread_mutex_lock(void *m) {
  uint32_t *w = (uint32_t *)m;
  if (*w != 0) {
    RT_ASSERT(*w != (uint32_t)rt_cur + 1, "pthread_mutex_lock: relock by owner (self-deadlock)");
    rt_block = 1; rt_wait_kind[rt_cur] = RT_W_MUTEX; rt_wait_obj[rt_cur] = m; return 0; }
  *w = (uint32_t)rt_cur + 1; rt_wait_kind[rt_cur] = RT_W_NONE; return 0;
}
static uint32_t P_pthread_mutex_trylock(void *m) {
  uint32_t *w = (uint32_t *)m;
  if (*w != 0) return 16; /* EBUSY */
  *w = (uint32_t)rt_cur + 1; return 0;
}
static uint32_t P_pthread_mutex_unlock(void *m) {
  uint32_t *w = (uint32_t *)m;
  RT_ASSERT(*w == (uint32_t)rt_cur + 1, "pthread_mutex_unlock by a thread that does not own the mutex");
  *w = 0; return 0;
}

/* ------------------------------------------------------------------ primitives: futex */
#define RT_EAGAIN 11
#define RT_EINTR 4
#define RT_ENOSYS 38
static uint8_t rt_fx_state[RT_NSLOTS];   /* 0 idle, 1 waiting, 2 woken */
static void *rt_fx_addr[RT_NSLOTS];
static unsigned rt_fault_budget = RT_FAULTS;
static _Bool rt_cov_futex_slept, rt_cov_futex_woken, rt_cov_futex_fault;
static uint64_t P_sys_futex(void *uaddr, uint32_t op, uint32_t val, void *timeout, void *uaddr2, uint32_t val3) {
  (void)timeout; (void)uaddr2; (void)val3;
  int t = rt_cur;
#if RT_FUTEX_ENOSYS
  rt_errno[t] = RT_ENOSYS; return (uint64_t)-1;
#else
  op &= 127;
  if (op == 0) {               /* FUTEX_WAIT */
    if (rt_fx_state[t] == 0) {
      if (*(uint32_t *)uaddr != val) { rt_errno[t] = RT_EAGAIN; return (uint64_t)-1; }
      rt_fx_state[t] = 1; rt_fx_addr[t] = uaddr; rt_cov_futex_slept = 1;
      rt_block = 1; rt_wait_kind[t] = RT_W_FUTEX; rt_wait_obj[t] = uaddr; return 0;
    }
    if (rt_fx_state[t] == 1) {
      if (rt_fault_budget > 0 && nondet_bool()) {    /* spurious return or EINTR */
        rt_fault_budget--; rt_fx_state[t] = 0; rt_wait_kind[t] = RT_W_NONE; rt_cov_futex_fault = 1;
        if (nondet_bool()) { rt_errno[t] = RT_EINTR; return (uint64_t)-1; }
        return 0;
      }
      rt_block = 1; return 0;
    }
    rt_fx_state[t] = 0; rt_wait_kind[t] = RT_W_NONE; rt_cov_futex_woken = 1; return 0;
  }
  if (op == 1) {               /* FUTEX_WAKE */
    uint64_t n = 0;
    for (int i = 0; i < RT_NSLOTS; i++)
      if (rt_fx_state[i] == 1 && rt_fx_addr[i] == uaddr && n < val) { rt_fx_state[i] = 2; n++; }
    return n;
  }
  RT_ASSERT(0, "unsupported futex op");
  return 0;
#endif
}

/* harness primitive: block until ghost cell idx holds val (models e.g. "wait for the grace period that the ghost
 * reader sections define"; contract of synchronize_rcu where it is on the stub list) */
static void P_rt_wait_eq(uint32_t idx, uint64_t val) {
  if (rt_ghost[idx] != val) { rt_block = 1; rt_wait_kind[rt_cur] = RT_W_USER; rt_wait_obj[rt_cur] = (void *)(uintptr_t)idx; rt_wait_val[rt_cur] = val; return; }
  rt_wait_kind[rt_cur] = RT_W_NONE;
}

/* can a thread parked on a blocking primitive make progress now? (deadlock detector) */
static _Bool rt_can_proceed(int t) {
  switch (rt_wait_kind[t]) {
  case RT_W_MUTEX: return *(uint32_t *)rt_wait_obj[t] == 0;
  case RT_W_FUTEX: return rt_fx_state[t] == 2;
  case RT_W_JOIN: return rt_done_slot((int)(uintptr_t)rt_wait_obj[t]);
  case RT_W_USER: return rt_ghost[(uintptr_t)rt_wait_obj[t]] == rt_wait_val[t];
  default: return 1;
  }
}

/* ------------------------------------------------------------------ primitives: threads */
static int rt_activate(void *fn, void *arg);
static uint32_t P_pthread_create(void *tidp, void *attr, void *fn, void *arg) {
  (void)attr;
  int k = rt_activate(fn, arg);
  if (tidp) *(uint64_t *)tidp = (uint64_t)k + 1;
  return 0;
}
static uint32_t P_pthread_join(uint64_t tid, void *retp) {
  int k = (int)tid - 1;
  if (!rt_done_slot(k)) { rt_block = 1; rt_wait_kind[rt_cur] = RT_W_JOIN; rt_wait_obj[rt_cur] = (void *)(uintptr_t)k; return 0; }
  rt_wait_kind[rt_cur] = RT_W_NONE;
  if (retp) *(void **)retp = (void *)0;
  return 0;
}
static void *P_strerror(uint32_t e) { (void)e; return (void *)0; }
static uint64_t P_fwrite(void *p, uint64_t sz, uint64_t n, void *f) { (void)p; (void)sz; (void)f; return n; }
static uint32_t P_compat_futex_async(void *a, uint32_t op, uint32_t v, void *t, void *a2, uint32_t v3) {
  (void)a; (void)op; (void)v; (void)t; (void)a2; (void)v3;
  RT_ASSERT(0, "compat_futex_async reached but not modelled in this obligation"); return 0; }
static uint32_t P_compat_futex_noasync(void *a, uint32_t op, uint32_t v, void *t, void *a2, uint32_t v3) {
  (void)a; (void)op; (void)v; (void)t; (void)a2; (void)v3;
  RT_ASSERT(0, "compat_futex_noasync reached but not modelled in this obligation"); return 0; }

/* workqueue entry points (src/workqueue.c is a separate TU): reached only by obligations about lazy resize, which model them */
#ifndef RT_HAVE_WORKQUEUE
static void P_urcu_workqueue_queue_work(void *wq, void *work, void *fn) { (void)wq; (void)work; (void)fn; RT_ASSERT(0, "urcu_workqueue_queue_work reached but not modelled in this obligation"); RT_ASSUME(0); }
static void P_urcu_workqueue_flush_queued_work(void *wq) { (void)wq; RT_ASSERT(0, "urcu_workqueue_flush_queued_work reached but not modelled"); RT_ASSUME(0); }
static void P_urcu_workqueue_destroy(void *wq) { (void)wq; RT_ASSERT(0, "urcu_workqueue_destroy reached but not modelled"); RT_ASSUME(0); }
static void *P_urcu_workqueue_create(uint64_t f, uint32_t cpu, void *priv, void *a, void *b, void *c, void *d, void *e, void *g, void *h) {
  (void)f; (void)cpu; (void)priv; (void)a; (void)b; (void)c; (void)d; (void)e; (void)g; (void)h; RT_ASSERT(0, "urcu_workqueue_create reached but not modelled"); RT_ASSUME(0); return 0; }
static void P_urcu_workqueue_pause_worker(void *wq) { (void)wq; RT_ASSERT(0, "urcu_workqueue_pause_worker not modelled"); }
static void P_urcu_workqueue_resume_worker(void *wq) { (void)wq; RT_ASSERT(0, "urcu_workqueue_resume_worker not modelled"); }
static void P_urcu_workqueue_create_worker(void *wq) { (void)wq; RT_ASSERT(0, "urcu_workqueue_create_worker not modelled"); }
static void P_urcu_workqueue_wait_completion(void *wq, void *c) { (void)wq; (void)c; RT_ASSERT(0, "urcu_workqueue_wait_completion not modelled"); }
#endif

/* ------------------------------------------------------------------ primitives: misc environment */
static uint32_t P_poll(void *fds, uint64_t n, uint32_t ms) { (void)fds; (void)n; (void)ms; return 0; }
static uint32_t P_sched_yield(void) { return 0; }
static uint32_t P_usleep(uint32_t us) { (void)us; return 0; }
static uint64_t P_pthread_self(void) { return (uint64_t)rt_cur + 1; }
/* urcu-bp: anonymous private mappings are zero-filled fresh memory; growing a mapping in place and thread-exit destructors are not modelled */
static void *P_mmap(void *addr, uint64_t len, uint32_t prot, uint32_t flags, uint32_t fd, uint64_t off) {
  (void)prot; (void)fd; (void)off;
  RT_ASSERT(addr == 0 && (flags & 0x20), "mmap: only anonymous mappings at a kernel-chosen address are modelled");
  void *p = RT_ALLOC(len, 1);
#ifndef IRSEQ_NATIVE
  __CPROVER_assume(p != 0);
#endif
  return p; }
static void *P_mremap(void *a, uint64_t o, uint64_t n, uint32_t fl) { (void)a; (void)o; (void)n; (void)fl; RT_ASSERT(0, "mremap (registry arena growth) not modelled"); return 0; }
static uint32_t P_munmap(void *a, uint64_t n) { (void)a; (void)n; return 0; }
static uint32_t P_pthread_key_create(void *key, void *dtor) { (void)dtor; *(uint32_t *)key = 1; return 0; }
static uint32_t P_pthread_key_delete(uint32_t key) { (void)key; return 0; }
static uint32_t P_pthread_setspecific(uint32_t key, void *v) { (void)key; (void)v; return 0; }
/* the library only ever blocks everything (sigfillset + SIG_BLOCK) and restores the old mask (SIG_SETMASK) */
static uint32_t P_pthread_sigmask(uint32_t how, void *set, void *old) {
  if (old) *(uint8_t *)old = rt_sigblocked[rt_cur];
  if (set) { if (how == 0) rt_sigblocked[rt_cur] = 1; else if (how == 2) rt_sigblocked[rt_cur] = *(uint8_t *)set; else if (how == 1) rt_sigblocked[rt_cur] = 0; }
  return 0; }
static uint32_t P_sigfillset(void *set) { *(uint8_t *)set = 1; return 0; }
static uint32_t P_sigemptyset(void *set) { *(uint8_t *)set = 0; return 0; }
static uint32_t P_sched_getcpu(void) { return 0; }
static uint64_t P_sysconf(uint32_t n) { (void)n; return 1; }
static uint32_t P_getpagesize(void) { return 4096; }

static uint64_t P_sys_membarrier(uint32_t cmd, uint32_t flags) {
  (void)flags;
#if !RT_MEMBARRIER
  rt_errno[rt_cur] = RT_ENOSYS; return (uint64_t)-1;
#else
  if (cmd == 0) return (1u << 3) | (1u << 4) | 1u;   /* QUERY: PRIVATE_EXPEDITED + REGISTER + GLOBAL */
#if RT_TSO
  if (cmd == (1u << 3)) {
    /* every other thread must have an empty store buffer at some instant between call and return
     * (= it executed a full barrier there).  Buffers drain only at their owner's scheduling points
     * (RT_STEP / RT_TURN_BEGIN clear the pending bit when they observe an empty buffer). */
    int t = rt_cur;
    if (rt_mb_state[t] == 0) {
      for (int i = 0; i < RT_NSLOTS; i++) if (i != t) rt_mb_pending[t][i] = rt_sbc[i] > 0;
      rt_mb_state[t] = 1;
    }
    _Bool all = 1;
    for (int i = 0; i < RT_NSLOTS; i++) {
      if (rt_mb_pending[t][i] && rt_sbc[i] == 0) rt_mb_pending[t][i] = 0;
      if (rt_mb_pending[t][i]) all = 0;
    }
    if (!all) { rt_block = 1; rt_wait_kind[t] = RT_W_NONE; return 0; }
    rt_mb_state[t] = 0;
    return 0;
  }
#endif
  return 0;
#endif
}
