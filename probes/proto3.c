#include <assert.h>
#include "tso.h"
typedef struct node { struct node *next; } node;
struct { node n; } H; struct { node *p; } T;
node N[4];
#define YIELD(k) V##k: if (budget-- == 0) { c->pc = k; return; } sb_flush_some(t);
#define DONE 1000
#define LD(a) ((node*)tso_load(t,(void**)&(a)))
#define ST(a,v) tso_store(t,(void**)&(a),(void*)(v))
#ifdef NOFENCE
#define FENCE() 
#else
#define FENCE() sb_drain(t)
#endif
struct ctx { int pc; node *r1, *r22, *r25, *r28, *r33, *r44, *r47; int r11, r18, r36, r43; node *ret; node *arg; };
static void run_enq(struct ctx *c, int t, unsigned budget) {
  node *n = c->arg;
  switch (c->pc) { case 0: goto V0; case 1: goto V1; case 2: goto V2; case 3: goto V3; case DONE: return; }
  YIELD(0) ST(n->next, 0);
  YIELD(1) FENCE();
  YIELD(2) { sb_drain(t); c->r1 = T.p; T.p = n; }  /* xchg: locked */
  YIELD(3) ST(c->r1->next, n);
  c->pc = DONE;
}
static void run_deq(struct ctx *c, int t, unsigned budget) {
  switch (c->pc) { case 0: goto V0; case 1: goto V1; case 2: goto V2; case 3: goto V3; case 4: goto V4; case 5: goto V5; case 6: goto V6; case 7: goto V7; case 8: goto V8; case 9: goto V9; case 10: goto V10; case 11: goto V11; case 12: goto V12; case DONE: return; }
  node *tt;
  YIELD(0) tt = LD(H.n.next);
  if (tt != 0) goto B7;
  YIELD(1) tt = LD(T.p);
  if (tt == &H.n) { c->ret = 0; goto B48; }
B7:
  YIELD(2) c->r22 = LD(H.n.next);
  if (c->r22 != 0) goto B21;
  c->r11 = 0;
B10:
  if (c->r11 > 8) { YIELD(3) c->r18 = 0; } else { c->r18 = c->r11 + 1; YIELD(4) ; }
  YIELD(5) c->r22 = LD(H.n.next);
  if (c->r22 == 0) { c->r11 = c->r18; goto B10; }
B21:
  YIELD(6) c->r25 = LD(c->r22->next);
  if (c->r25 != 0) { c->r47 = c->r25; goto B46; }
  YIELD(7) ST(H.n.next, 0);
  YIELD(8) { sb_drain(t); c->r28 = T.p; if (c->r28 == c->r22) T.p = &H.n; } /* cmpxchg */
  if (c->r28 == c->r22) { c->ret = c->r22; goto B48; }
  YIELD(9) c->r33 = LD(c->r22->next);
  if (c->r33 != 0) { c->r47 = c->r33; goto B46; }
  c->r36 = 0;
B35:
  if (c->r36 > 8) { c->r43 = 0; } else { c->r43 = c->r36 + 1; }
  YIELD(10) c->r44 = LD(c->r22->next);
  if (c->r44 == 0) { c->r36 = c->r43; goto B35; }
  c->r47 = c->r44;
B46:
  YIELD(11) ST(H.n.next, c->r47);
  YIELD(12) FENCE();
  c->ret = c->r22;
B48:
  c->pc = DONE;
}
#ifndef R
#define R 3
#endif
int main(void) {
  H.n.next = 0; T.p = &H.n;
  struct ctx e0 = {0}, e1 = {0}, e2={0}, d0 = {0}, d1 = {0};
  e0.arg = &N[0]; e1.arg = &N[1]; e2.arg=&N[2];
  node *got0 = 0, *got1 = 0;
  for (int r = 0; r < R; r++) {
    run_enq(&e0, 0, nondet_uint());
    if (e0.pc == DONE) run_enq(&e2, 0, nondet_uint());
    run_enq(&e1, 1, nondet_uint());
    run_deq(&d0, 2, nondet_uint());
    if (d0.pc == DONE) run_deq(&d1, 2, nondet_uint());
  }
  __CPROVER_assume(e0.pc == DONE && e1.pc == DONE && e2.pc == DONE && d0.pc == DONE && d1.pc == DONE);
  got0 = d0.ret; got1 = d1.ret;
  assert(got0 == 0 || got0 != got1);
  assert(!(got0 == &N[2]));
  assert(!(got1 == &N[2] && got0 != &N[0]));
#ifdef WITNESS
  assert(!(got0 == &N[1] && got1 == &N[0]));
#endif
}
