#define _LGPL_SOURCE
#include <urcu/urcu-mb.h>
#include <urcu/rculfhash.h>
#include <assert.h>
#include "rculfhash-internal.h"
struct mynode { struct cds_lfht_node n; unsigned long key; };
static int match(struct cds_lfht_node *n, const void *key){ return ((struct mynode*)n)->key == *(const unsigned long*)key; }
unsigned long nondet_ulong(void);
extern const struct rcu_flavor_struct urcu_mb_flavor;
static struct cds_lfht HT; static int ht_used;
static struct cds_lfht_node BK[8][4]; static int bk_used;
static void *my_malloc(void *s, size_t sz){ __CPROVER_assert(0,"no malloc"); return 0; }
static void *my_calloc(void *s, size_t n, size_t sz){
  if (n == 1 && sz == sizeof(struct cds_lfht)) { __CPROVER_assume(!ht_used); ht_used = 1; return &HT; }
  if (sz == sizeof(struct cds_lfht_node)) { __CPROVER_assume(n <= 4 && bk_used < 8); return BK[bk_used++]; }
  __CPROVER_assert(0,"unexpected calloc"); return 0; }
static void my_free(void *s, void *p){}
static struct cds_lfht_alloc A = { .malloc = my_malloc, .calloc = my_calloc, .free = my_free };
int main(void){
  struct cds_lfht *ht = _cds_lfht_new_with_alloc(1, 1, 4, 0, &cds_lfht_mm_order, &urcu_mb_flavor, &A, 0);
  struct mynode a, b; struct cds_lfht_iter it;
  unsigned long ha = nondet_ulong(), hb = nondet_ulong();
  __CPROVER_assume(ha < HMAX && hb < HMAX);
  a.key = 1; b.key = 2;
  cds_lfht_node_init(&a.n); cds_lfht_node_init(&b.n);
  cds_lfht_add(ht, ha, &a.n);
  cds_lfht_add(ht, hb, &b.n);
  cds_lfht_lookup(ht, ha, match, &a.key, &it);
  assert(cds_lfht_iter_get_node(&it) == &a.n);
  cds_lfht_lookup(ht, hb, match, &b.key, &it);
  assert(cds_lfht_iter_get_node(&it) == &b.n);
  assert(cds_lfht_del(ht, &a.n) == 0);
  cds_lfht_lookup(ht, ha, match, &a.key, &it);
  assert(cds_lfht_iter_get_node(&it) == 0);
#ifdef WITNESS
  assert(0);
#endif
  return 0;
}
