#include <assert.h>
int x, y, r1, r2, d1, d2;
void t1(void){ x = 1;
#ifdef FENCE
 __asm__ __volatile__("mfence":::"memory");
#endif
 r1 = y; d1 = 1; }
void t2(void){ y = 1;
#ifdef FENCE
 __asm__ __volatile__("mfence":::"memory");
#endif
 r2 = x; d2 = 1;}
int main(){ 
__CPROVER_ASYNC_1: t1();
__CPROVER_ASYNC_2: t2();
 __CPROVER_assume(d1 && d2);
 assert(!(r1==0 && r2==0)); }
