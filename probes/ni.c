static int helper(int x) __attribute__((noinline));
void pub(void) __attribute__((noinline));
static inline int helper(int x){ return x*3+1; }
int g;
void pub(void){ g++; }
int user(int a){ pub(); return helper(a)+helper(a+1); }
