#include <assert.h>
#define NT 2
#define NOENV
#include "tso.h"
void *X, *Y; 
struct ctx { int pc; void *r; };
#define YIELD(k) V##k: if (budget-- == 0) { c->pc = k; return; } sb_flush_some(t);
#define DONE 1000
#ifdef NOFENCE
#define FENCE()
#else
#define FENCE() sb_drain(t)
#endif
static void run(struct ctx *c, int t, void **mine, void **other, unsigned budget){
  switch (c->pc) { case 0: goto V0; case 1: goto V1; case 2: goto V2; case DONE: return; }
  YIELD(0) tso_store(t, mine, (void*)1);
  YIELD(1) FENCE();
  YIELD(2) c->r = tso_load(t, other);
  c->pc = DONE;
}
int main(){ struct ctx a={0}, b={0};
  for (int r=0;r<R;r++){ run(&a,0,&X,&Y,nondet_uint()); run(&b,1,&Y,&X,nondet_uint()); }
  __CPROVER_assume(a.pc==DONE && b.pc==DONE);
  assert(!(a.r==0 && b.r==0)); }
