#include <stdint.h>
#ifndef NT
#define NT 3
#endif
#ifndef SBN
#define SBN 2
#endif
unsigned nondet_uint(void);
_Bool nondet_bool(void);
struct sbent { void **addr; void *val; };
static struct sbent sb[NT][SBN]; static unsigned char sbc[NT];
static inline void sb_flush_one(int t){ *(sb[t][0].addr) = sb[t][0].val; for (int i=0;i+1<SBN;i++) sb[t][i]=sb[t][i+1]; sbc[t]--; }
static inline void sb_flush_some(int t){
#ifndef NOOWNFLUSH
 unsigned n = nondet_uint(); for (int i=0;i<SBN;i++) if (i<n && sbc[t]>0) sb_flush_one(t);
#endif
}
static inline void sb_drain(int t){ for (int i=0;i<SBN;i++) if (sbc[t]>0) sb_flush_one(t); }
static inline void tso_store(int t, void **addr, void *v){
  if (sbc[t]==SBN) sb_flush_one(t); sb[t][sbc[t]].addr=addr; sb[t][sbc[t]].val=v; sbc[t]++;
}
static inline void *tso_load(int t, void **addr){
#if defined(NOENV)
#elif defined(LAZY)
  for (int u=0;u<NT;u++) if (u!=t) { int upto = 0; for (int i=0;i<SBN;i++) if (i<sbc[u] && sb[u][i].addr==addr && nondet_bool()) upto = i+1; for (int i=0;i<SBN;i++) if (i<upto) sb_flush_one(u); }
#else
  for (int u=0;u<NT;u++) if (u!=t) sb_flush_some(u);
#endif
  for (int i=SBN-1;i>=0;i--) if (i<sbc[t] && sb[t][i].addr==addr) return sb[t][i].val;
  return *addr; }
