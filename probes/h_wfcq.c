#define _LGPL_SOURCE
#include <urcu/wfcqueue.h>
struct cds_wfcq_head H; struct cds_wfcq_tail T;
struct cds_wfcq_node N[4];
void thr_enq0(void){ cds_wfcq_node_init(&N[0]); cds_wfcq_enqueue(&H,&T,&N[0]); }
struct cds_wfcq_node *thr_deq(void){ return __cds_wfcq_dequeue_blocking(&H,&T); }
