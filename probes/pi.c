#include <stdint.h>
#include <assert.h>
struct n { struct n *next; int v; } A, B;
struct ctx { uint64_t r; struct n *p; };
int nondet_int(void);
void f(struct ctx *c, int phase){ if (phase==0) { c->r = (uint64_t)(nondet_int()? &A : &B); c->p = (struct n*)c->r; } else { ((struct n*)c->r)->v = 5; assert(c->p->v == 5); 
   struct n *q = (struct n*)(((uintptr_t)c->p) | 1); struct n *q2 = (struct n*)(((uintptr_t)q) & ~(uintptr_t)7); assert(q2 == c->p); q2->v = 6; assert(c->p->v==6); assert(((uintptr_t)q & 1) == 1);} }
int main(){ struct ctx c = {0}; for (int i=0;i<2;i++) f(&c, i); }
