#include <stdio.h>
#include <urcu/urcu-mb.h>
#include <urcu/defer.h>
static void cb(void *p){ printf("cb %p\n", p); }
int main(void){
  urcu_mb_register_thread();
  urcu_mb_defer_register_thread();
  urcu_mb_defer_rcu(cb,(void*)0x10);
  urcu_mb_defer_barrier();
  urcu_mb_defer_unregister_thread();
  printf("unregistered\n");
  urcu_mb_defer_register_thread();
  printf("re-registered\n");
  urcu_mb_defer_rcu(cb,(void*)0x20);
  urcu_mb_defer_unregister_thread();
  urcu_mb_unregister_thread();
  return 0;
}
