#include <stdio.h>
#include <stdlib.h>
#include <unistd.h>
#include <urcu/urcu-mb.h>
#include <urcu/rculfhash.h>
int main(int argc, char **argv){
  unsigned long sz = strtoul(argv[1],0,0);
  urcu_mb_register_thread();
  struct cds_lfht *ht = cds_lfht_new_flavor(1, 1, 0, 0, &urcu_mb_flavor, NULL);
  alarm(3);
  cds_lfht_resize(ht, sz);
  printf("resize(%lu) returned\n", sz);
  long a,b; unsigned long c; urcu_mb_read_lock(); cds_lfht_count_nodes(ht,&a,&c,&b); urcu_mb_read_unlock();
  printf("count=%lu\n", c);
  printf("destroy=%d\n", cds_lfht_destroy(ht, NULL));
  urcu_mb_unregister_thread();
  return 0;
}
