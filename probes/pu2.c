#include <assert.h>
struct n { int v; struct n *next; };
struct n a = {1,0}, b = {2,0};
struct n *head = &a;
int seen, d1, d2;
void reader(void){ struct n *p = head; seen = p->v; d1 = 1; }
void writer(void){ head = &b; d2 = 1; }
int main(){ 
__CPROVER_ASYNC_1: reader();
__CPROVER_ASYNC_2: writer();
 __CPROVER_assume(d1 && d2);
 assert(seen != 2); }
