/* Declarations harness TUs use; the generator turns these calls into runtime macros. */
#ifndef RT_API_H
#define RT_API_H
#include <stdint.h>
void rt_assert(int cond, const char *msg);
void rt_cover(int cond, const char *msg);     /* coverage witness: must be reachable with cond true */
void rt_assume(int cond);
uint64_t rt_nondet_u64(void);
uint32_t rt_nondet_u32(void);
uint8_t rt_nondet_u8(void);
int rt_nondet_bool(void);
uint32_t rt_stamp(void);     /* strictly increasing logical time; not a scheduling point */
void rt_gset(uint32_t idx, uint64_t v);   /* ghost cell write (invisible to the scheduler and to the store buffers) */
uint64_t rt_gget(uint32_t idx);
void rt_bset(uint32_t bank, uint32_t idx, uint32_t v);   /* small ghost arrays (RT_NBANK x RT_BANKSZ) for symbolic indices */
uint32_t rt_bget(uint32_t bank, uint32_t idx);
void rt_wait_eq(uint32_t idx, uint64_t val);   /* block until ghost cell idx == val */
uint32_t rt_self(void);      /* slot number of the executing thread */
#endif
