/* Declarations harness TUs use; the generator turns these calls into runtime macros. */
#ifndef RT_API_H
#define RT_API_H
#include <stdint.h>
void rt_assert(int cond, const char *msg);
void rt_cover(int cond, const char *msg);     /* coverage witness: must be reachable with cond true */
void rt_assume(int cond);
uint64_t rt_nondet_u64(void);
uint32_t rt_nondet_u32(void);
uint8_t rt_nondet_u8(void);
int rt_nondet_bool(void);
#endif
