"""Parser for the textual LLVM-14 IR subset that clang-14 -O1 emits for liburcu.

Anything outside the subset raises Unsupported; the driver reports that as
INCONCLUSIVE (never as a pass).
"""
import re


class Unsupported(Exception):
    pass


# ----------------------------------------------------------------------------- types
class Type:
    pass


class IntT(Type):
    def __init__(s, bits): s.bits = bits
    def __repr__(s): return 'i%d' % s.bits
    def key(s): return ('i', s.bits)


class VoidT(Type):
    def __repr__(s): return 'void'
    def key(s): return ('void',)


class FloatT(Type):
    def __init__(s, name): s.name = name
    def __repr__(s): return s.name
    def key(s): return ('fp', s.name)


class PtrT(Type):
    def __init__(s, to): s.to = to
    def __repr__(s): return '%r*' % (s.to,)
    def key(s): return ('p', s.to.key())


class NamedT(Type):
    def __init__(s, name): s.name = name
    def __repr__(s): return '%' + s.name
    def key(s): return ('n', s.name)


class StructT(Type):
    def __init__(s, fields, packed=False): s.fields = fields; s.packed = packed
    def __repr__(s): return '{%s}' % ','.join(map(repr, s.fields))
    def key(s): return ('s', s.packed, tuple(f.key() for f in s.fields))


class OpaqueT(Type):
    def __repr__(s): return 'opaque'
    def key(s): return ('opaque',)


class ArrayT(Type):
    def __init__(s, n, elem): s.n = n; s.elem = elem
    def __repr__(s): return '[%d x %r]' % (s.n, s.elem)
    def key(s): return ('a', s.n, s.elem.key())


class FuncT(Type):
    def __init__(s, ret, params, vararg): s.ret = ret; s.params = params; s.vararg = vararg
    def __repr__(s): return '%r(%s%s)' % (s.ret, ','.join(map(repr, s.params)), ',...' if s.vararg else '')
    def key(s): return ('f', s.ret.key(), tuple(p.key() for p in s.params), s.vararg)


def teq(a, b):
    return a.key() == b.key()


# ----------------------------------------------------------------------------- values
class Value:
    ty = None


class Reg(Value):
    def __init__(s, name, ty=None): s.name = name; s.ty = ty
    def __repr__(s): return '%' + s.name


class CInt(Value):
    def __init__(s, v, ty): s.v = v; s.ty = ty
    def __repr__(s): return str(s.v)


class CNull(Value):
    def __init__(s, ty): s.ty = ty
    def __repr__(s): return 'null'


class CUndef(Value):
    def __init__(s, ty): s.ty = ty
    def __repr__(s): return 'undef'


class CZero(Value):
    def __init__(s, ty): s.ty = ty
    def __repr__(s): return 'zeroinitializer'


class GlobalRef(Value):
    def __init__(s, name, ty=None): s.name = name; s.ty = ty
    def __repr__(s): return '@' + s.name


class CAgg(Value):
    """constant struct / array"""
    def __init__(s, elems, ty): s.elems = elems; s.ty = ty
    def __repr__(s): return 'agg%r' % (s.elems,)


class CStr(Value):
    def __init__(s, data, ty): s.data = data; s.ty = ty
    def __repr__(s): return 'c"..."'


class CExpr(Value):
    """constant expression: op in getelementptr/bitcast/inttoptr/ptrtoint/add/sub/...
    args: list of Values; for gep: srcty + args[0]=base, args[1:]=indices"""
    def __init__(s, op, args, ty, srcty=None, extra=None):
        s.op = op; s.args = args; s.ty = ty; s.srcty = srcty; s.extra = extra
    def __repr__(s): return '%s(%s)' % (s.op, ','.join(map(repr, s.args)))


class InlineAsm(Value):
    def __init__(s, tmpl, cons, ty): s.tmpl = tmpl; s.cons = cons; s.ty = ty
    def __repr__(s): return 'asm(%r,%r)' % (s.tmpl, s.cons)


class Instr:
    __slots__ = ('op', 'res', 'ty', 'args', 'x', 'line')

    def __init__(s, op, res=None, ty=None, args=None, **x):
        s.op = op; s.res = res; s.ty = ty; s.args = args or []; s.x = x; s.line = None

    def __repr__(s):
        return '%s = %s %r %r' % (s.res, s.op, s.args, s.x)


class Block:
    def __init__(s, label): s.label = label; s.instrs = []


class Function:
    def __init__(s, name, fty, params, attrs):
        s.name = name; s.fty = fty; s.params = params; s.blocks = []; s.attrs = attrs

    def block(s, label):
        for b in s.blocks:
            if b.label == label:
                return b
        raise KeyError(label)


class GlobalVar:
    def __init__(s, name, ty, init, tls, const, external):
        s.name = name; s.ty = ty; s.init = init; s.tls = tls; s.const = const; s.external = external


class Module:
    def __init__(s):
        s.structs = {}      # name -> StructT | OpaqueT
        s.globals = {}      # name -> GlobalVar
        s.functions = {}    # name -> Function (defined)
        s.declares = {}     # name -> FuncT
        s.order = []

    def resolve(s, t):
        while isinstance(t, NamedT):
            t = s.structs[t.name]
        return t

    # ---- data layout (x86-64)
    def sizeof(s, t):
        return s._sa(t)[0]

    def alignof(s, t):
        return s._sa(t)[1]

    def _sa(s, t):
        t = s.resolve(t)
        if isinstance(t, IntT):
            b = (t.bits + 7) // 8
            sz = 1
            while sz < b:
                sz *= 2
            return sz, min(sz, 16) if sz <= 8 else 16
        if isinstance(t, PtrT):
            return 8, 8
        if isinstance(t, FloatT):
            return {'float': (4, 4), 'double': (8, 8), 'x86_fp80': (16, 16)}[t.name]
        if isinstance(t, ArrayT):
            es, ea = s._sa(t.elem)
            return es * t.n, ea
        if isinstance(t, StructT):
            off = 0; al = 1
            for f in t.fields:
                fs, fa = s._sa(f)
                if t.packed:
                    fa = 1
                off = (off + fa - 1) // fa * fa
                off += fs
                al = max(al, fa)
            off = (off + al - 1) // al * al
            return off, al
        if isinstance(t, OpaqueT):
            return 0, 1
        raise Unsupported('sizeof %r' % (t,))

    def field_offsets(s, t):
        t = s.resolve(t)
        off = 0; res = []
        for f in t.fields:
            fs, fa = s._sa(f)
            if t.packed:
                fa = 1
            off = (off + fa - 1) // fa * fa
            res.append(off)
            off += fs
        return res


# ----------------------------------------------------------------------------- lexer
TOK = re.compile(r'''
   (?P<ws>\s+)
 | (?P<comment>;[^\n]*)
 | (?P<str>c?"(?:[^"\\]|\\.)*")
 | (?P<lvar>%(?:"(?:[^"\\]|\\.)*"|[-a-zA-Z$._0-9]+))
 | (?P<gvar>@(?:"(?:[^"\\]|\\.)*"|[-a-zA-Z$._0-9]+))
 | (?P<meta>![-a-zA-Z$._0-9]*)
 | (?P<attrgrp>\#[0-9]+)
 | (?P<num>-?[0-9]+(?:\.[0-9]+(?:e[+-]?[0-9]+)?)?)
 | (?P<hex>0x[KLMHR]?[0-9A-Fa-f]+)
 | (?P<dots>\.\.\.)
 | (?P<word>[a-zA-Z_][a-zA-Z_0-9.]*)
 | (?P<punct>[=,(){}\[\]<>*:|])
''', re.X)


def lex(text):
    out = []
    pos = 0
    n = len(text)
    while pos < n:
        m = TOK.match(text, pos)
        if not m:
            raise Unsupported('lex error at %r' % text[pos:pos + 40])
        pos = m.end()
        k = m.lastgroup
        if k in ('ws', 'comment'):
            continue
        v = m.group(k)
        if k in ('lvar', 'gvar'):
            nm = v[1:]
            if nm.startswith('"'):
                nm = nm[1:-1]
            out.append((k, nm))
        else:
            out.append((k, v))
    return out


PARAM_ATTRS = {'noundef', 'nonnull', 'nocapture', 'readonly', 'writeonly', 'noalias', 'signext', 'zeroext',
               'immarg', 'returned', 'inreg', 'nofree', 'nest', 'readnone', 'swiftself', 'swifterror',
               'noinline', 'nounwind', 'nobuiltin', 'nomerge', 'allocsize', 'cold', 'noreturn', 'willreturn',
               'mustprogress', 'inalloca', 'speculatable'}
PARAM_ATTRS_ARG = {'align', 'dereferenceable', 'dereferenceable_or_null', 'byval', 'sret', 'elementtype',
                   'byref', 'preallocated', 'allocsize'}
LINKAGE = {'private', 'internal', 'available_externally', 'linkonce', 'weak', 'common', 'appending', 'extern_weak',
           'linkonce_odr', 'weak_odr', 'external', 'dso_local', 'dso_preemptable', 'default', 'hidden', 'protected',
           'unnamed_addr', 'local_unnamed_addr', 'externally_initialized', 'dllimport', 'dllexport'}
CASTS = {'bitcast', 'ptrtoint', 'inttoptr', 'trunc', 'zext', 'sext', 'addrspacecast'}
BINOPS = {'add', 'sub', 'mul', 'udiv', 'sdiv', 'urem', 'srem', 'shl', 'lshr', 'ashr', 'and', 'or', 'xor'}
ORDERINGS = {'unordered', 'monotonic', 'acquire', 'release', 'acq_rel', 'seq_cst'}


class P:
    """token-stream parser"""

    def __init__(s, toks, mod):
        s.t = toks; s.i = 0; s.mod = mod

    def peek(s, k=0):
        return s.t[s.i + k] if s.i + k < len(s.t) else ('eof', '')

    def next(s):
        tok = s.peek(); s.i += 1; return tok

    def accept(s, val):
        if s.peek()[1] == val and s.peek()[0] not in ('str', 'lvar', 'gvar'):
            s.i += 1; return True
        return False

    def expect(s, val):
        if not s.accept(val):
            raise Unsupported('expected %r got %r (context %r)' % (val, s.peek(), s.t[max(0, s.i - 6):s.i + 4]))

    def eof(s):
        return s.i >= len(s.t)

    # ---- types
    def type(s):
        k, v = s.next()
        if k == 'word':
            if v == 'void':
                t = VoidT()
            elif re.fullmatch(r'i[0-9]+', v):
                t = IntT(int(v[1:]))
            elif v in ('float', 'double', 'x86_fp80', 'half', 'fp128'):
                t = FloatT(v)
            elif v == 'opaque':
                t = OpaqueT()
            elif v == 'ptr':
                raise Unsupported('opaque pointers')
            elif v == 'metadata':
                t = VoidT()
            elif v == 'label':
                t = VoidT()
            else:
                raise Unsupported('type %r' % v)
        elif k == 'lvar':
            t = NamedT(v)
        elif (k, v) == ('punct', '{'):
            t = StructT(s._fields('}'))
        elif (k, v) == ('punct', '<'):
            if s.accept('{'):
                t = StructT(s._fields('}'), packed=True)
                s.expect('>')
            else:
                raise Unsupported('vector type')
        elif (k, v) == ('punct', '['):
            n = int(s.next()[1]); s.expect('x'); e = s.type(); s.expect(']')
            t = ArrayT(n, e)
        else:
            raise Unsupported('type token %r' % ((k, v),))
        while True:
            if s.accept('*'):
                t = PtrT(t)
            elif s.peek() == ('punct', '('):
                s.next()
                ps = []; va = False
                while not s.accept(')'):
                    if s.accept('...'):
                        va = True
                    else:
                        ps.append(s.type())
                        s.skip_param_attrs()
                    s.accept(',')
                t = FuncT(t, ps, va)
            else:
                return t

    def _fields(s, close):
        fs = []
        while not s.accept(close):
            fs.append(s.type()); s.accept(',')
        return fs

    def skip_param_attrs(s):
        while True:
            k, v = s.peek()
            if k == 'word' and v in PARAM_ATTRS_ARG:
                s.next()
                if s.accept('('):
                    depth = 1
                    while depth:
                        kk, vv = s.next()
                        if (kk, vv) == ('punct', '('): depth += 1
                        if (kk, vv) == ('punct', ')'): depth -= 1
                elif s.peek()[0] == 'num':
                    s.next()
            elif k == 'word' and v in PARAM_ATTRS:
                s.next()
            elif k == 'str':  # "attr"="val"
                s.next()
                if s.accept('='):
                    s.next()
            else:
                return

    # ---- values
    def value(s, ty):
        k, v = s.next()
        if k == 'lvar':
            return Reg(v, ty)
        if k == 'gvar':
            return GlobalRef(v, ty)
        if k == 'num':
            return CInt(int(v), ty)
        if k == 'hex':
            raise Unsupported('fp constant')
        if k == 'word':
            if v == 'true': return CInt(1, ty)
            if v == 'false': return CInt(0, ty)
            if v == 'null': return CNull(ty)
            if v in ('undef', 'poison'): return CUndef(ty)
            if v == 'zeroinitializer': return CZero(ty)
            if v == 'asm':
                while s.peek()[1] in ('sideeffect', 'alignstack', 'inteldialect', 'unwind'):
                    s.next()
                tm = s.next()[1]; s.expect(','); co = s.next()[1]
                return InlineAsm(unq(tm), unq(co), ty)
            if v == 'getelementptr':
                s.accept('inbounds')
                s.expect('(')
                srcty = s.type(); s.expect(',')
                args = []
                while True:
                    s.accept('inrange')
                    t = s.type(); args.append(s.value(t))
                    if not s.accept(','):
                        break
                s.expect(')')
                return CExpr('getelementptr', args, ty, srcty=srcty)
            if v in CASTS:
                s.expect('(')
                t = s.type(); a = s.value(t); s.expect('to'); t2 = s.type(); s.expect(')')
                return CExpr(v, [a], t2)
            if v in BINOPS:
                while s.peek()[1] in ('nuw', 'nsw', 'exact'):
                    s.next()
                s.expect('(')
                t = s.type(); a = s.value(t); s.expect(','); t2 = s.type(); b = s.value(t2); s.expect(')')
                return CExpr(v, [a, b], t)
            if v == 'icmp':
                pred = s.next()[1]
                s.expect('(')
                t = s.type(); a = s.value(t); s.expect(','); t2 = s.type(); b = s.value(t2); s.expect(')')
                return CExpr('icmp', [a, b], IntT(1), extra=pred)
            if v == 'select':
                s.expect('(')
                t = s.type(); c = s.value(t); s.expect(',')
                t1 = s.type(); a = s.value(t1); s.expect(',')
                t2 = s.type(); b = s.value(t2); s.expect(')')
                return CExpr('select', [c, a, b], t1)
            raise Unsupported('value word %r' % v)
        if k == 'str' and v.startswith('c"'):
            return CStr(unq(v[1:]), ty)
        if (k, v) == ('punct', '{'):
            el = s._agg('}')
            return CAgg(el, ty)
        if (k, v) == ('punct', '['):
            el = s._agg(']')
            return CAgg(el, ty)
        if (k, v) == ('punct', '<'):
            if s.accept('{'):
                el = s._agg('}'); s.expect('>')
                return CAgg(el, ty)
            raise Unsupported('vector constant')
        raise Unsupported('value token %r' % ((k, v),))

    def _agg(s, close):
        el = []
        while not s.accept(close):
            t = s.type(); el.append(s.value(t)); s.accept(',')
        return el

    def tvalue(s):
        t = s.type()
        s.skip_param_attrs()
        return s.value(t)

    def skip_meta_tail(s):
        # ", !dbg !12, !tbaa !5" or ", align 8"
        while s.accept(','):
            k, v = s.peek()
            if k == 'meta':
                s.next()
                if s.peek()[0] == 'meta':
                    s.next()
                    if s.peek() == ('punct', '{'):
                        raise Unsupported('inline metadata')
            elif v == 'align':
                s.next(); s.next()
            else:
                raise Unsupported('tail %r' % ((k, v),))


def unq(sv):
    """decode an LLVM string literal with \\XX escapes -> bytes-as-latin1 str"""
    body = sv[1:-1]
    out = []
    i = 0
    while i < len(body):
        c = body[i]
        if c == '\\':
            if body[i + 1] == '\\':
                out.append('\\'); i += 2
            else:
                out.append(chr(int(body[i + 1:i + 3], 16))); i += 3
        else:
            out.append(c); i += 1
    return ''.join(out)


# ----------------------------------------------------------------------------- top level
def parse_module(text):
    mod = Module()
    lines = text.split('\n')
    i = 0
    n = len(lines)
    while i < n:
        ln = lines[i]
        st = ln.strip()
        if not st or st.startswith(';') or st.startswith('source_filename') or st.startswith('target ') \
                or st.startswith('attributes ') or st.startswith('!') or st.startswith('module asm'):
            i += 1; continue
        if st.startswith('%') or st.startswith('$'):
            if st.startswith('$'):
                i += 1; continue
            p = P(lex(st), mod)
            name = p.next()[1]; p.expect('='); p.expect('type')
            mod.structs[name] = p.type()
            i += 1; continue
        if st.startswith('@'):
            parse_global(mod, st)
            i += 1; continue
        if st.startswith('declare'):
            p = P(lex(st), mod)
            p.next()
            name, fty, _, _ = parse_fn_header(p)
            mod.declares[name] = fty
            i += 1; continue
        if st.startswith('define'):
            j = i
            body = []
            while lines[j].strip() != '}':
                body.append(lines[j]); j += 1
            parse_function(mod, body)
            i = j + 1; continue
        raise Unsupported('top-level line %r' % st[:80])
    return mod


def parse_global(mod, st):
    p = P(lex(st), mod)
    name = p.next()[1]; p.expect('=')
    tls = False; const = False; external = False
    while True:
        k, v = p.peek()
        if k == 'word' and v in LINKAGE:
            if v in ('external', 'extern_weak'): external = True
            p.next()
        elif v == 'thread_local':
            p.next(); tls = True
            if p.accept('('):
                p.next(); p.expect(')')
        elif v == 'addrspace':
            raise Unsupported('addrspace')
        elif v == 'global':
            p.next(); break
        elif v == 'constant':
            p.next(); const = True; break
        elif v == 'alias' or v == 'ifunc':
            raise Unsupported('alias %s' % name)
        else:
            raise Unsupported('global header %r' % ((k, v),))
    ty = p.type()
    init = None
    if not external and not p.eof() and p.peek() != ('punct', ','):
        init = p.value(ty)
    mod.globals[name] = GlobalVar(name, ty, init, tls, const, external)
    mod.order.append(name)


def parse_fn_header(p):
    # after 'define'/'declare'
    attrs = set()
    while True:
        k, v = p.peek()
        if k == 'word' and (v in LINKAGE or v in PARAM_ATTRS or v in ('fastcc', 'ccc', 'coldcc')):
            attrs.add(v); p.next()
        elif k == 'word' and v in PARAM_ATTRS_ARG:
            p.skip_param_attrs()
        else:
            break
    ret = p.type()
    k, name = p.next()
    assert k == 'gvar', (k, name)
    p.expect('(')
    ptys = []; pnames = []; va = False
    while not p.accept(')'):
        if p.accept('...'):
            va = True
        else:
            t = p.type(); p.skip_param_attrs()
            ptys.append(t)
            if p.peek()[0] == 'lvar':
                pnames.append(p.next()[1])
            else:
                pnames.append(None)
        p.accept(',')
    # function attrs until '{' / eof
    while not p.eof():
        k, v = p.next()
        if k == 'word' and v == 'noinline': attrs.add('noinline')
    return name, FuncT(ret, ptys, va), pnames, attrs


def parse_function(mod, body):
    hdr = body[0].strip()
    assert hdr.endswith('{')
    hp = P(lex(hdr[:-1]), mod)
    hp.next()  # define
    name, fty, pnames, attrs = parse_fn_header(hp)
    # unnamed params are %0.. ; first unnamed block label follows
    cnt = 0
    params = []
    for t, nm in zip(fty.params, pnames):
        if nm is None:
            nm = str(cnt); cnt += 1
        elif nm.isdigit():
            cnt = int(nm) + 1
        params.append(Reg(nm, t))
    f = Function(name, fty, params, attrs)
    cur = None
    k = 1
    nb = len(body)
    while k < nb:
        raw = body[k]
        st = raw.strip()
        k += 1
        if not st or st.startswith(';'):
            continue
        m = re.match(r'^([-a-zA-Z$._0-9]+|"[^"]*"):', st)
        if m and not raw.startswith('  '):
            lab = m.group(1).strip('"')
            cur = Block(lab); f.blocks.append(cur)
            continue
        if cur is None:
            cur = Block(str(cnt)); f.blocks.append(cur)
        if st.startswith('switch '):
            while not re.search(r'\]\s*(,\s*!.*)?$', st):
                st += ' ' + body[k].strip(); k += 1
        ins = parse_instr(mod, st)
        ins.line = st
        cur.instrs.append(ins)
    mod.functions[name] = f
    return f


def parse_instr(mod, st):
    p = P(lex(st), mod)
    res = None
    if p.peek()[0] == 'lvar' and p.peek(1) == ('punct', '='):
        res = p.next()[1]; p.next()
    k, op = p.next()
    if op in ('tail', 'musttail', 'notail'):
        k, op = p.next()
    if op == 'call':
        while p.peek()[0] == 'word' and (p.peek()[1] in ('fastcc', 'ccc', 'coldcc') or p.peek()[1] in PARAM_ATTRS
                                         or p.peek()[1] in PARAM_ATTRS_ARG):
            if p.peek()[1] in PARAM_ATTRS_ARG:
                p.skip_param_attrs()
            else:
                p.next()
        rty = p.type()
        callee = p.value(None)
        p.expect('(')
        args = []
        while not p.accept(')'):
            t = p.type(); p.skip_param_attrs()
            if isinstance(t, VoidT) and p.peek()[0] == 'meta':   # metadata arg (dbg intrinsics)
                p.next()
                args.append(CUndef(t))
            else:
                args.append(p.value(t))
            p.accept(',')
        fty = None
        if isinstance(rty, FuncT):
            fty = rty; rty = fty.ret
        return Instr('call', res, rty, args, callee=callee, fty=fty)
    if op == 'alloca':
        p.accept('inalloca')
        t = p.type()
        cnt = None
        if p.accept(','):
            if p.peek()[1] == 'align':
                p.next(); p.next()
            else:
                ct = p.type(); cnt = p.value(ct)
        return Instr('alloca', res, PtrT(t), [], aty=t, count=cnt)
    if op == 'load':
        atomic = p.accept('atomic'); vol = p.accept('volatile')
        t = p.type(); p.expect(',')
        pt = p.type(); ptr = p.value(pt)
        order = None
        if p.peek()[1] == 'syncscope':
            p.next(); p.expect('('); p.next(); p.expect(')')
        if p.peek()[1] in ORDERINGS:
            order = p.next()[1]
        return Instr('load', res, t, [ptr], atomic=atomic, volatile=vol, order=order)
    if op == 'store':
        atomic = p.accept('atomic'); vol = p.accept('volatile')
        t = p.type(); v = p.value(t); p.expect(',')
        pt = p.type(); ptr = p.value(pt)
        order = None
        if p.peek()[1] == 'syncscope':
            p.next(); p.expect('('); p.next(); p.expect(')')
        if p.peek()[1] in ORDERINGS:
            order = p.next()[1]
        return Instr('store', None, VoidT(), [v, ptr], atomic=atomic, volatile=vol, order=order)
    if op == 'getelementptr':
        p.accept('inbounds')
        srcty = p.type(); p.expect(',')
        args = []
        while True:
            t = p.type(); args.append(p.value(t))
            if not p.accept(','):
                break
            if p.peek()[0] == 'meta':
                break
        return Instr('getelementptr', res, None, args, srcty=srcty)
    if op in CASTS:
        t = p.type(); a = p.value(t); p.expect('to'); t2 = p.type()
        return Instr(op, res, t2, [a])
    if op in BINOPS:
        while p.peek()[1] in ('nuw', 'nsw', 'exact'):
            p.next()
        t = p.type(); a = p.value(t); p.expect(','); b = p.value(t)
        return Instr(op, res, t, [a, b])
    if op == 'icmp':
        pred = p.next()[1]
        t = p.type(); a = p.value(t); p.expect(','); b = p.value(t)
        return Instr('icmp', res, IntT(1), [a, b], pred=pred)
    if op == 'select':
        c = p.tvalue(); p.expect(','); a = p.tvalue(); p.expect(','); b = p.tvalue()
        return Instr('select', res, a.ty, [c, a, b])
    if op == 'phi':
        t = p.type()
        inc = []
        while True:
            p.expect('['); v = p.value(t); p.expect(','); lab = p.next()[1]; p.expect(']')
            inc.append((v, lab))
            if not p.accept(','):
                break
            if p.peek()[0] == 'meta':
                break
        return Instr('phi', res, t, [], incoming=inc)
    if op == 'br':
        if p.accept('label'):
            return Instr('br', None, VoidT(), [], targets=[p.next()[1]])
        c = p.tvalue(); p.expect(','); p.expect('label'); a = p.next()[1]; p.expect(','); p.expect('label'); b = p.next()[1]
        return Instr('br', None, VoidT(), [c], targets=[a, b])
    if op == 'switch':
        v = p.tvalue(); p.expect(','); p.expect('label'); dflt = p.next()[1]
        p.expect('[')
        cases = []
        while not p.accept(']'):
            cv = p.tvalue(); p.expect(','); p.expect('label'); cases.append((cv.v, p.next()[1]))
        return Instr('switch', None, VoidT(), [v], default=dflt, cases=cases)
    if op == 'ret':
        t = p.type()
        if isinstance(t, VoidT):
            return Instr('ret', None, t, [])
        return Instr('ret', None, t, [p.value(t)])
    if op == 'unreachable':
        return Instr('unreachable', None, VoidT(), [])
    if op == 'freeze':
        v = p.tvalue()
        return Instr('freeze', res, v.ty, [v])
    if op == 'extractvalue':
        v = p.tvalue(); idx = []
        while p.accept(','):
            if p.peek()[0] == 'meta': break
            idx.append(int(p.next()[1]))
        return Instr('extractvalue', res, None, [v], idx=idx)
    if op == 'insertvalue':
        v = p.tvalue(); p.expect(','); e = p.tvalue(); idx = []
        while p.accept(','):
            if p.peek()[0] == 'meta': break
            idx.append(int(p.next()[1]))
        return Instr('insertvalue', res, v.ty, [v, e], idx=idx)
    if op == 'fence':
        scope = None
        if p.peek()[1] == 'syncscope':
            p.next(); p.expect('('); scope = unq(p.next()[1]); p.expect(')')
        return Instr('fence', None, VoidT(), [], order=p.next()[1], scope=scope)
    if op == 'atomicrmw':
        p.accept('volatile')
        rop = p.next()[1]
        ptr = p.tvalue(); p.expect(','); v = p.tvalue()
        if p.peek()[1] == 'syncscope':
            p.next(); p.expect('('); p.next(); p.expect(')')
        order = p.next()[1]
        return Instr('atomicrmw', res, v.ty, [ptr, v], rop=rop, order=order)
    if op == 'cmpxchg':
        p.accept('weak'); p.accept('volatile')
        ptr = p.tvalue(); p.expect(','); c = p.tvalue(); p.expect(','); nw = p.tvalue()
        if p.peek()[1] == 'syncscope':
            p.next(); p.expect('('); p.next(); p.expect(')')
        so = p.next()[1]; fo = p.next()[1]
        return Instr('cmpxchg', res, StructT([c.ty, IntT(1)]), [ptr, c, nw], order=so)
    raise Unsupported('instruction %r' % st[:100])


