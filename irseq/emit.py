"""C emitter: LLVM IR (after xform) -> C for CBMC / gcc.

plain mode     : one C function per instance, locals.
resumable mode : one C function per thread instance, registers in statics, a yield point before
                 every visible instruction (DESIGN 2.2/2.3).
"""
import re
from ir import *
from xform import *
import asmtab

DONE_PC = 0x7fffffff


class Ctl(str):
    """a control line of a resumable instance (label, yield point, terminator): emitted as is; plain strings are statements
    that execute only in RUN mode (walk scheme)"""
    pass


def san(n):
    return re.sub(r'[^A-Za-z0-9_]', '_', n)


class CTypes:
    def __init__(s, mod):
        s.mod = mod
        s.names = {}       # type key -> C type string usable as a prefix type
        s.defs = []        # emitted definitions in order
        s.done_struct = set()
        s.inprog = set()
        s.fwd = set()
        s.counter = 0

    def ct(s, t):
        k = t.key()
        if k in s.names:
            return s.names[k]
        r = s._ct(t)
        s.names[k] = r
        return r

    def _ct(s, t):
        if isinstance(t, IntT):
            if t.bits == 1: return '_Bool'
            if t.bits <= 8: return 'uint8_t'
            if t.bits <= 16: return 'uint16_t'
            if t.bits <= 32: return 'uint32_t'
            if t.bits <= 64: return 'uint64_t'
            if t.bits <= 128: return 'unsigned __int128'
            raise Unsupported('int width %d' % t.bits)
        if isinstance(t, VoidT):
            return 'void'
        if isinstance(t, FloatT):
            return {'float': 'float', 'double': 'double', 'x86_fp80': 'long double'}[t.name]
        if isinstance(t, PtrT):
            if isinstance(t.to, VoidT):
                return 'void *'
            return s.ct(t.to) + ' *'
        if isinstance(t, NamedT):
            nm = 'struct S_' + san(t.name)
            if t.name not in s.fwd:
                s.fwd.add(t.name)
                s.defs.append(nm + ';')
            return nm
        if isinstance(t, StructT):
            s.counter += 1
            nm = 'struct L_%d' % s.counter
            s.names[t.key()] = nm
            s._struct_body(nm, t)
            return nm
        if isinstance(t, ArrayT):
            e = s.ct(t.elem)
            s.need_complete(t.elem)
            s.counter += 1
            nm = 'AT_%d' % s.counter
            s.defs.append('typedef %s %s[%d];' % (e, nm, t.n))
            return nm
        if isinstance(t, FuncT):
            r = s.ct(t.ret)
            ps = [s.ct(p) for p in t.params]
            s.counter += 1
            nm = 'FT_%d' % s.counter
            pl = ', '.join(ps) if ps else ('void' if not t.vararg else '')
            if t.vararg:
                pl = (pl + ', ...') if pl else '...'
            s.defs.append('typedef %s %s(%s);' % (r, nm, pl))
            return nm
        if isinstance(t, OpaqueT):
            return 'void'
        raise Unsupported('ctype %r' % (t,))

    def need_complete(s, t):
        """make sure by-value use of t is possible (struct body emitted)"""
        if isinstance(t, NamedT):
            if t.name in s.done_struct:
                return
            if t.name in s.inprog:
                raise Unsupported('recursive by-value struct %s' % t.name)
            body = s.mod.structs[t.name]
            if isinstance(body, OpaqueT):
                return
            s.inprog.add(t.name)
            nm = s.ct(t)
            s._struct_body(nm, body)
            s.inprog.discard(t.name)
            s.done_struct.add(t.name)
        elif isinstance(t, ArrayT):
            s.need_complete(t.elem)
        elif isinstance(t, StructT):
            s.ct(t)

    def _struct_body(s, nm, body):
        fl = []
        for i, f in enumerate(body.fields):
            s.need_complete(f)
            fl.append('  %s f%d;' % (s.ct(f), i))
        if not fl:
            fl.append('  char __empty[0];')
        s.defs.append('%s {\n%s\n}%s;' % (nm, '\n'.join(fl), ' __attribute__((packed))' if body.packed else ''))


class Emitter:
    def __init__(s, mod, spec):
        s.mod = mod
        s.spec = spec
        s.T = CTypes(mod)
        s.out_globals = []
        s.out_funcs = []
        s.protos = {}
        s.fa = set()
        s.nslots = spec.get('nslots', 1)
        s.tso = spec.get('tso', 0)
        s.stubs = set(spec.get('stubs', []))
        s.atomic = set(spec.get('atomic', []))
        s.blocking = set(spec.get('blocking', ['pthread_mutex_lock', 'pthread_join', 'futex', 'membarrier', 'pthread_cond_wait',
                                               'rt_wait_eq']))
        s.invisible_prims = set(spec.get('invisible_prims', [])) | {'__errno_location', '__irseq_bad_indirect', 'abort', '__assert_fail',
                                                                    'strerror', 'perror', 'pthread_self', 'getpagesize', 'sysconf'}
        s.hint_prims = set(spec.get('hint_prims', ['poll', 'sched_yield', 'usleep']))
        s.warnings = []
        s.stats = {}
        s.cur_mode = 'resumable'
        s.plain_calls = spec.get('plain_calls', True)
        s.inliner = Inliner(mod, s.is_prim, spec.get('indirect_filter'), stub_map=spec.get('stub_map'),
                            indirect_hook=spec.get('indirect_hook'), indirect_only=spec.get('indirect_only'))
        s.used_globals = set()
        s.atomic_needed = set()   # (name, slot)
        s.atomic_done = set()
        s.messages = []

    def is_prim(s, n):
        if s.cur_mode == 'plain' and s.plain_calls and n in s.mod.functions:
            return True          # sequential code keeps its call structure (each callee is emitted once per slot and called)
        return n in s.stubs or n in s.atomic or n not in s.mod.functions

    # ------------------------------------------------------------------ globals
    def gname(s, n):
        return 'G_' + san(n)

    def emit_globals(s):
        T = s.T
        lines = []
        for n in s.mod.order:
            g = s.mod.globals[n]
            if n.startswith('llvm.'):
                continue
            T.need_complete(g.ty)
            ct = T.ct(g.ty)
            nm = s.gname(n)
            # thread-local variables: one separate C object per thread slot (never an array indexed by slot: a pointer that may
            # refer to several elements of one array object makes CBMC lose the constant offset and fall back to byte-level
            # extraction over the whole array)
            names = ['%s__s%d' % (nm, k) for k in range(s.nslots)] if g.tls else [nm]
            if g.external:
                for x in names:
                    lines.append('%s %s;' % (ct, x))
                continue
            init = ''
            if g.init is not None and not isinstance(g.init, (CZero, CStr, CUndef)):
                try:
                    iv = s.cinit(g.init, g.ty)
                    init = ' = ' + iv
                except Unsupported as e:
                    s.warnings.append('initialiser of %s dropped: %s' % (n, e))
            for x in names:
                lines.append('%s %s%s;' % (ct, x, init))
        return lines

    def cinit(s, v, ty):
        rt = s.mod.resolve(ty)
        if isinstance(v, CZero) or isinstance(v, CUndef):
            if isinstance(rt, (StructT, ArrayT)):
                return '{0}'
            return '0'
        if isinstance(v, CAgg):
            if isinstance(rt, StructT):
                return '{' + ', '.join(s.cinit(e, ft) for e, ft in zip(v.elems, rt.fields)) + '}'
            return '{' + ', '.join(s.cinit(e, rt.elem) for e in v.elems) + '}'
        if isinstance(v, CStr):
            return '{' + ', '.join(str(ord(c)) for c in v.data) + '}'
        return s.val(v, None, const=True)

    # ------------------------------------------------------------------ values
    def cint(s, v, ty):
        bits = ty.bits
        x = v & ((1 << bits) - 1)
        if bits == 1:
            return '((_Bool)%d)' % x
        if bits <= 32:
            return '((%s)%uU)' % (s.T.ct(ty), x) if False else '((%s)%dU)' % (s.T.ct(ty), x)
        if bits <= 64:
            return '((uint64_t)%dULL)' % x
        return '((unsigned __int128)%dULL)' % (x & ((1 << 64) - 1)) if x < (1 << 64) else \
            '((((unsigned __int128)%dULL) << 64) | %dULL)' % (x >> 64, x & ((1 << 64) - 1))

    def val(s, v, ctx, const=False):
        """C expression for IR value v.  ctx = instance context (None in global initialisers)"""
        T = s.T
        if isinstance(v, Reg):
            return ctx.reg(v.name)
        if isinstance(v, CInt):
            return s.cint(v.v, v.ty)
        if isinstance(v, CNull):
            return '((%s)0)' % T.ct(v.ty)
        if isinstance(v, (CUndef, CZero)):
            rt = s.mod.resolve(v.ty)
            if isinstance(rt, (StructT, ArrayT)):
                T.need_complete(v.ty)
                return '((%s){0})' % T.ct(v.ty)
            return '((%s)0)' % T.ct(v.ty)
        if isinstance(v, GlobalRef):
            n = v.name
            if n in s.mod.globals:
                g = s.mod.globals[n]
                if g.tls:
                    if ctx is None:
                        raise Unsupported('TLS address in initialiser')
                    return '(&%s__s%d)' % (s.gname(n), ctx.slot)
                return '(&%s)' % s.gname(n)
            if n in s.mod.functions or n in s.mod.declares:
                s.fa.add(n)
                fty = fn_type_of(s.mod, n)
                return '((%s *)FA_%s)' % (T.ct(fty), san(n))
            raise Unsupported('unknown global %s' % n)
        if isinstance(v, CExpr):
            if v.op == 'inttoptr' and isinstance(v.args[0], CInt) and 0 < v.args[0].v < 4096 and not const:
                # small sentinel constants ((void *)1 ...): NULL-object-relative, bit-identical to the integer cast, but keeps
                # CBMC's "integer address" pseudo-object out of the points-to sets (see check.py points-to guard)
                return '((%s)((char *)0 + %d))' % (T.ct(v.ty), v.args[0].v)
            if v.op == 'bitcast' or v.op == 'inttoptr' or v.op == 'ptrtoint' or v.op == 'addrspacecast':
                return '((%s)%s)' % (T.ct(v.ty), s.val(v.args[0], ctx, const))
            if v.op == 'getelementptr':
                return s.gep(v.srcty, v.args, ctx, const)
            if v.op in ('trunc', 'zext'):
                return '((%s)%s)' % (T.ct(v.ty), s.val(v.args[0], ctx, const))
            if v.op in BINOPS:
                return s.binop(v.op, v.ty, s.val(v.args[0], ctx, const), s.val(v.args[1], ctx, const))
            if v.op == 'icmp':
                return s.icmp(v.extra, v.args[0].ty, s.val(v.args[0], ctx, const), s.val(v.args[1], ctx, const))
            if v.op == 'select':
                return '(%s ? %s : %s)' % tuple(s.val(a, ctx, const) for a in v.args)
            raise Unsupported('constexpr %s' % v.op)
        raise Unsupported('value %r' % (v,))

    def gep(s, srcty, args, ctx, const=False):
        """getelementptr as pointer arithmetic.  Struct fields are reached by byte offset ((F *)((char *)p + off)) instead of
        &p->f: CBMC turns address-of-member-of-dereference into points-to entries for sub-objects whose dereference guard
        compares only the root object, which resolved loads to the wrong array element (measured; DESIGN 2.2)."""
        T = s.T
        base = s.val(args[0], ctx, const)
        T.need_complete(srcty)
        if const:
            # static initialisers must stay address constants: use the member form
            e = base
            t = srcty
            i0 = args[1]
            if not (isinstance(i0, CInt) and i0.v == 0):
                e = '(%s + %s)' % (e, s.sidx(i0, ctx, const))
            for idx in args[2:]:
                rt = s.mod.resolve(t)
                if isinstance(rt, StructT):
                    e = '(&(%s)->f%d)' % (e, idx.v)
                    t = rt.fields[idx.v]
                else:
                    et = rt.elem
                    T.need_complete(et)
                    e = '((%s *)%s + %s)' % (T.ct(et), e, s.sidx(idx, ctx, const))
                    t = et
            return e
        t = srcty
        coff = 0            # constant byte offset
        dyn = []            # dynamic byte offset terms
        i0 = args[1]
        esz = s.mod.sizeof(srcty)
        if isinstance(i0, CInt):
            coff += i0.v * esz
        else:
            dyn.append('%s * (int64_t)%d' % (s.sidx(i0, ctx, const), esz))
        for idx in args[2:]:
            rt = s.mod.resolve(t)
            if isinstance(rt, StructT):
                coff += s.mod.field_offsets(t)[idx.v]
                t = rt.fields[idx.v]
            else:
                et = rt.elem
                T.need_complete(et)
                sz = s.mod.sizeof(et)
                if isinstance(idx, CInt):
                    coff += idx.v * sz
                else:
                    dyn.append('%s * (int64_t)%d' % (s.sidx(idx, ctx, const), sz))
                t = et
        rt = s.mod.resolve(t)
        if isinstance(rt, (StructT, ArrayT)):
            T.need_complete(t)
        rct = T.ct(PtrT(t))
        if coff == 0 and not dyn:
            return '((%s)%s)' % (rct, base)
        terms = ([('(int64_t)%d' % coff)] if coff else []) + dyn
        return '((%s)((char *)%s + (%s)))' % (rct, base, ' + '.join(terms))

    def sidx(s, v, ctx, const=False):
        if isinstance(v, CInt):
            return '(%d)' % v.v
        bits = v.ty.bits
        return '((int%d_t)%s)' % (max(bits, 8), s.val(v, ctx, const))

    def signed(s, ty, e):
        b = ty.bits
        if b in (8, 16, 32, 64):
            return '((int%d_t)%s)' % (b, e)
        if b == 1:
            return '(-(int8_t)%s)' % e
        if b == 128:
            return '((__int128)%s)' % e
        raise Unsupported('signed i%d' % b)

    def binop(s, op, ty, a, b):
        ct = s.T.ct(ty)
        sym = {'add': '+', 'sub': '-', 'mul': '*', 'udiv': '/', 'urem': '%', 'shl': '<<', 'lshr': '>>',
               'and': '&', 'or': '|', 'xor': '^'}
        if isinstance(ty, PtrT):
            raise Unsupported('binop on pointer')
        if op in sym:
            if op in ('shl', 'lshr') and ty.bits < 32:
                return '((%s)((uint32_t)%s %s %s))' % (ct, a, sym[op], b)
            return '((%s)(%s %s %s))' % (ct, a, sym[op], b)
        if op == 'sdiv':
            return '((%s)(%s / %s))' % (ct, s.signed(ty, a), s.signed(ty, b))
        if op == 'srem':
            return '((%s)(%s %% %s))' % (ct, s.signed(ty, a), s.signed(ty, b))
        if op == 'ashr':
            return '((%s)(%s >> %s))' % (ct, s.signed(ty, a), b)
        raise Unsupported(op)

    def icmp(s, pred, ty, a, b):
        rt = s.mod.resolve(ty)
        if isinstance(rt, PtrT):
            if pred in ('eq', 'ne'):
                return '((_Bool)((void *)%s %s (void *)%s))' % (a, '==' if pred == 'eq' else '!=', b)
            a = '((uintptr_t)%s)' % a; b = '((uintptr_t)%s)' % b
            rt = IntT(64)
        sym = {'eq': '==', 'ne': '!=', 'ugt': '>', 'uge': '>=', 'ult': '<', 'ule': '<=',
               'sgt': '>', 'sge': '>=', 'slt': '<', 'sle': '<='}[pred]
        if pred[0] == 's':
            a = s.signed(rt, a); b = s.signed(rt, b)
        return '((_Bool)(%s %s %s))' % (a, sym, b)

    # ------------------------------------------------------------------ function instances
    def instance(s, fname, slot, mode, prefix):
        """emit one instance; returns C text"""
        s.cur_mode = mode
        s.inliner.mode_tag = mode if s.plain_calls else ''
        f = s.inliner.inline_root(fname)
        ctx = Inst(s, f, slot, mode, prefix)
        txt = ctx.emit()
        s.stats[prefix] = ctx.stats
        return txt

    def proto(s, name, fty):
        """prototype of primitive P_name: pointers are void*"""
        if name in s.protos:
            return
        T = s.T

        def pt(t):
            r = s.mod.resolve(t)
            if isinstance(r, PtrT):
                return 'void *'
            if isinstance(r, (StructT, ArrayT)):
                T.need_complete(t)
            return T.ct(t)
        ps = ', '.join(pt(p) for p in fty.params) or 'void'
        s.protos[name] = '%s P_%s(%s);' % (pt(fty.ret), san(name), ps)


class Inst:
    """one emitted instance of a (fully inlined) function"""

    def __init__(s, em, f, slot, mode, prefix):
        s.em = em; s.f = f; s.slot = slot; s.mode = mode; s.prefix = prefix
        s.mod = em.mod
        s.info = FuncInfo(em.mod, f)
        s.resumable = (mode == 'resumable')
        s.lines = []
        s.nvis = 0
        s.vis_desc = []
        s.stats = {}
        s.allocas = {}
        s.extra = []
        s.ntemp = 0

    def temp(s, ct):
        s.ntemp += 1
        nm = '%s_tmp%d' % (s.prefix if s.resumable else 'r', s.ntemp)
        s.extra.append('%s%s %s;' % ('static ' if s.resumable else '', ct, nm))
        return nm

    def tso_here(s):
        """store buffering is modelled for this instance's slot (spec tso_slots: subset of slots; default all)"""
        if not s.em.tso:
            return False
        ts = s.em.spec.get('tso_slots')
        return ts is None or s.slot in ts

    def raw(s, name):
        if s.resumable:
            return '%s_r_%s' % (s.prefix, san(name))
        return 'r_%s' % san(name)

    def isp(s, name):
        return name in s.info.ptrlike

    def reg(s, name):
        """rvalue of IR register (in its IR type)"""
        if s.isp(name):
            return '((uint64_t)%s)' % s.raw(name)
        return s.raw(name)

    def pv(s, x):
        """pointer-typed C expression (void *) for an i64 IR value that carries a pointer, built without
        routing the pointer through integer arithmetic or an integer variable (CBMC's points-to tracking
        does not survive an integer '+'; see DESIGN 2.2)"""
        if isinstance(x, Reg):
            if s.isp(x.name):
                return s.raw(x.name)
            return '((void *)%s)' % s.raw(x.name)
        if isinstance(x, CExpr) and x.op == 'ptrtoint':
            return '((void *)%s)' % s.v(x.args[0])
        if isinstance(x, CNull) or (isinstance(x, CInt) and x.v == 0):
            return '((void *)0)'
        return '((void *)%s)' % s.v(x)

    def assign_p(s, name, pexpr):
        """assign a pointer-typed C expression to a pointer-like (i64) register"""
        if s.isp(name):
            return '%s = (void *)(%s);' % (s.raw(name), pexpr)
        return '%s = (uint64_t)(%s);' % (s.raw(name), pexpr)

    def assign(s, name, expr):
        """statement assigning C expression expr (of the register's IR type) to the register"""
        if s.isp(name):
            return '%s = (void *)(%s);' % (s.raw(name), expr)
        return '%s = %s;' % (s.raw(name), expr)

    def lab(s, l):
        return 'L_%s' % san(l)

    def emit(s):
        em = s.em; T = em.T; f = s.f
        body = []
        s.body = body
        s.bindex = {b.label: i for i, b in enumerate(f.blocks)}
        s.backedges = []
        # declarations
        decls = []
        locals_ = []
        sto = 'static ' if s.resumable else ''
        for n, t in f.regtypes.items():
            if isinstance(t, VoidT) or t is None:
                continue
            d = s.info.defs.get(n)
            if d is not None and d.op == 'alloca':
                at = d.x['aty']
                T.need_complete(at)
                if d.x.get('count') is not None:
                    c = d.x['count']
                    if not isinstance(c, CInt):
                        raise Unsupported('dynamic alloca')
                    decls.append('%s%s %s_mem[%d];' % (sto, T.ct(at), s.raw(n), c.v))
                    s.allocas[n] = '%s_mem' % s.raw(n)
                else:
                    decls.append('%s%s %s_mem;' % (sto, T.ct(at), s.raw(n)))
                    s.allocas[n] = '(&%s_mem)' % s.raw(n)
                decls.append('%s%s %s;' % (sto, T.ct(PtrT(at)), s.raw(n)))
                continue
            rt = s.mod.resolve(t)
            if isinstance(rt, (StructT, ArrayT)):
                T.need_complete(t)
            if s.resumable and n not in s.info.persistent:
                locals_.append('%s %s;' % ('void *' if s.isp(n) else T.ct(t), s.raw(n)))
            else:
                decls.append('%s%s %s;' % (sto, 'void *' if s.isp(n) else T.ct(t), s.raw(n)))
        # blocks
        s.walk = s.resumable and s.em.spec.get('emit_scheme', 'walk') == 'walk'
        s.vis_block = {}
        s.cur_block = None
        for b in f.blocks:
            s.cur_block = b.label
            body.append(Ctl('%s: ;' % s.lab(b.label)))
            for ins in b.instrs:
                if ins.op == 'phi':
                    continue
                s.emit_instr(b, ins)
        name = '%s_run' % s.prefix if s.resumable else s.prefix
        out = []
        if s.resumable and s.walk:
            s._walk_tables()
            out.append('/* instance %s: %s on slot %d (resumable/walk, %d visible steps) */' %
                       (s.prefix, f.name, s.slot, s.nvis))
            out += decls + s.extra
            out.append('static uint32_t %s_pc;' % s.prefix)
            out.append('static void %s(void) {' % name)
            out += ['  ' + l for l in locals_]
            out.append('  uint8_t m = (%s_pc == 0) ? RT_RUN : RT_SKIP;' % s.prefix)
            grp = []

            def flush():
                if grp:
                    out.append('  if (m == RT_RUN) {')
                    out.extend('    ' + g for g in grp)
                    out.append('  }')
                    del grp[:]
            for l in body:
                if isinstance(l, Ctl):
                    flush()
                    out.append('  ' + s._subst_hops(l))
                else:
                    grp.append(l)
            flush()
            out.append('  OUT: return;')
            out.append('}')
        elif s.resumable:
            out.append('/* instance %s: %s on slot %d (resumable, %d visible steps) */' %
                       (s.prefix, f.name, s.slot, s.nvis))
            out += decls + s.extra
            out.append('static uint32_t %s_pc;' % s.prefix)
            out.append('static void %s(void) {' % name)
            out += ['  ' + l for l in locals_]
            out.append('  switch (%s_pc) {' % s.prefix)
            out.append('  case 0: break;')
            for k in range(1, s.nvis + 1):
                out.append('  case %d: goto V%d;' % (k, k))
            out.append('  default: return; }')
            out += ['  ' + l for l in body]
            out.append('}')
        else:
            rty = T.ct(f.fty.ret)
            ps = ', '.join('%s %s' % (T.ct(p.ty), s.raw(p.name)) for p in f.params) or 'void'
            out.append('/* instance %s: %s on slot %d (plain) */' % (s.prefix, f.name, s.slot))
            out.append('static %s %s(%s) {' % (rty, name, ps))
            pn = {p.name for p in f.params}
            out += ['  ' + d for d in decls + s.extra if not any(d.endswith(' r_%s;' % san(p)) for p in pn)]
            out += ['  ' + l for l in body]
            out.append('}')
        s.stats = {'function': f.name, 'ir_instructions': sum(len(b.instrs) for b in f.blocks),
                   'visible_steps': s.nvis, 'mode': s.mode, 'slot': s.slot, 'loops': ''.join(s.backedges),
                   'cname': name}
        return '\n'.join(out)

    # -------------------------------------------------------------- walk scheme (DESIGN 2.3)
    def _walk_tables(s):
        """forward-edge reachability between blocks; which visible points live in which block"""
        f = s.f
        idx = s.bindex
        succ = {b.label: [t for t in (successors(b.instrs[-1]) if b.instrs else [])] for b in f.blocks}
        fwd = {l: [t for t in ts if idx[t] > idx[l]] for l, ts in succ.items()}
        reach = {}
        for b in reversed(f.blocks):
            r = {b.label}
            for t in fwd[b.label]:
                r |= reach[t]
            reach[b.label] = r
        s.reach = reach
        # distance to an exit (block without successors) along forward edges
        dist = {}
        for b in reversed(f.blocks):
            if not succ[b.label]:
                dist[b.label] = 0
            else:
                ds = [dist[t] + 1 for t in fwd[b.label] if t in dist]
                # a block whose successors are all back-edges leaves through OUT directly when stopped
                dist[b.label] = min(ds) if ds else 1
        s.exit_dist = dist
        entry = f.blocks[0].label
        for k, bl in s.vis_block.items():
            if bl not in reach[entry]:
                raise Unsupported('walk scheme: block %s of visible point %d is not reachable from the entry by forward edges' % (bl, k))
        for b in f.blocks:
            if b.label in reach[entry] and b.label not in dist:
                raise Unsupported('walk scheme: block %s cannot reach an exit by forward edges' % b.label)

    def _ranges(s, ks):
        ks = sorted(ks)
        out = []
        i = 0
        while i < len(ks):
            j = i
            while j + 1 < len(ks) and ks[j + 1] == ks[j] + 1:
                j += 1
            if i == j:
                out.append('%s_pc == %d' % (s.prefix, ks[i]))
            else:
                out.append('(%s_pc >= %d && %s_pc <= %d)' % (s.prefix, ks[i], s.prefix, ks[j]))
            i = j + 1
        return ' || '.join(out) if out else '0'

    def _subst_hops(s, line):
        """replace @@HOP:<block>@@ by the mode-dependent successor choice of that block's terminator"""
        import re as _re

        def rep(mo):
            bl = mo.group(1)
            b = s.f.block(bl)
            succ = successors(b.instrs[-1])
            idx = s.bindex
            fw = [t for t in succ if idx[t] > idx[bl]]
            if not fw:
                return 'goto OUT;'
            # SKIP: toward the block holding the resume point
            parts = []
            assigned = set()
            for t in fw:
                ks = [k for k, kb in s.vis_block.items() if kb in s.reach[t] and k not in assigned]
                assigned |= set(ks)
                parts.append((t, ks))
            skip = ''
            for t, ks in parts[:-1]:
                if ks:
                    skip += 'if (%s) goto %s; else ' % (s._ranges(ks), s.lab(t))
            skip += 'goto %s;' % s.lab(parts[-1][0])
            # STOP: shortest forward way out
            best = min(fw, key=lambda t: s.exit_dist.get(t, 1 << 30))
            return 'if (m == RT_SKIP) { %s } else goto %s;' % (skip, s.lab(best))
        return _re.sub(r'@@HOP:([^@]+)@@', rep, line)

    # -------------------------------------------------------------- helpers
    def v(s, x):
        return s.em.val(x, s)

    def yield_point(s, desc):
        if not s.resumable:
            return
        s.nvis += 1
        k = s.nvis
        s.vis_desc.append(desc)
        s.vis_block[k] = s.cur_block
        d = desc.replace('*/', '* /')[:90]
        if s.walk:
            s.body.append(Ctl('if (m == RT_SKIP && %s_pc == %d) m = RT_RUN; if (m == RT_RUN && RT_YIELD()) { %s_pc = %d; m = RT_STOP; } '
                              '%s/* V%d %s */' % (s.prefix, k, s.prefix, k,
                                                   ('if (m == RT_RUN) { RT_STEP(%d); } ' % s.slot) if s.tso_here() else '', k, d)))
        else:
            s.body.append('V%d: if (RT_YIELD()) { %s_pc = %d; return; } RT_STEP(%d); /* %s */' % (k, s.prefix, k, s.slot, d))
        return k

    def spin_yield(s):
        """spin hint in resumable mode: the thread gives up the processor here and resumes right after the hint
        (no budget check on resume), so one turn executes at most one iteration of a busy-wait loop.
        In a solo turn the first hint is ignored (nobody else runs: if the awaited event already happened the
        loop exits at its re-check, otherwise the second hint ends the turn)"""
        s.nvis += 1
        k = s.nvis
        s.vis_desc.append('spin hint')
        s.vis_block[k] = s.cur_block
        if s.walk:
            s.body.append('rt_ever_waited[%d] = 1; if (rt_solo && !rt_spun[%d]) { rt_spun[%d] = 1; } else { %s_pc = %d; rt_spun[%d] = 1; m = RT_STOP; }'
                          % (s.slot, s.slot, s.slot, s.prefix, k, s.slot))
            s.body.append(Ctl('if (m == RT_SKIP && %s_pc == %d) m = RT_RUN; /* V%d resume after spin hint */' % (s.prefix, k, k)))
        else:
            s.body.append('if (rt_solo && !rt_spun[%d]) { rt_spun[%d] = 1; } else { %s_pc = %d; rt_spun[%d] = 1; return; } V%d: ; /* resume after spin hint */'
                          % (s.slot, s.slot, s.prefix, k, s.slot, k))

    def _loop_class(s, frm, to):
        """classify the back-edge frm->to: 'w' if the loop body (layout range header..source) contains a busy-wait hint or a
        blocking primitive (the thread yields inside every iteration), else 'd' (data loop)"""
        bi = s.bindex
        lo, hi = bi[to], bi[frm]
        for b in s.f.blocks[lo:hi + 1]:
            for ins in b.instrs:
                if ins.op != 'call':
                    continue
                cal = ins.x['callee']
                if isinstance(cal, InlineAsm):
                    if cal.tmpl.strip() in ('rep; nop', 'pause'):
                        return 'w'
                    continue
                while isinstance(cal, CExpr) and cal.op == 'bitcast':
                    cal = cal.args[0]
                if isinstance(cal, GlobalRef):
                    n = cal.name
                    if n in s.em.hint_prims or n in s.em.blocking or n == 'rt_wait_eq':
                        return 'w'
                    if n == 'syscall' and ins.args and isinstance(ins.args[0], CInt) and ins.args[0].v == 202:
                        return 'w'
        return 'd'

    def edge(s, frm, to):
        """phi copies for edge frm->to followed by goto"""
        if s.bindex[to] <= s.bindex[frm]:
            s.backedges.append(s._loop_class(frm, to))
        tb = s.f.block(to)
        copies = []
        for ins in tb.instrs:
            if ins.op != 'phi':
                break
            for val, l in ins.x['incoming']:
                if l == frm:
                    copies.append((ins, val)); break
            else:
                raise Unsupported('phi %s in %s lacks incoming from %s' % (ins.res, to, frm))
        if not copies:
            return 'goto %s;' % s.lab(to)
        T = s.em.T
        if len(copies) == 1:
            ins, val = copies[0]
            return '{ %s goto %s; }' % (s.phi_copy(ins, val), s.lab(to))
        pre = []; post = []
        for i, (ins, val) in enumerate(copies):
            if s.isp(ins.res):
                pre.append('void *t%d = (void *)(%s);' % (i, s.pv(val)))
                post.append('%s = t%d;' % (s.raw(ins.res), i))
            else:
                pre.append('%s t%d = %s;' % (T.ct(ins.ty), i, s.cast_to(ins.ty, val)))
                post.append('%s = t%d;' % (s.raw(ins.res), i))
        return '{ %s %s goto %s; }' % (' '.join(pre), ' '.join(post), s.lab(to))

    def cast_to(s, ty, val):
        return s.v(val)

    def phi_copy(s, ins, val):
        if s.isp(ins.res):
            return s.assign_p(ins.res, s.pv(val))
        return s.assign(ins.res, s.v(val))

    def is_visible_ptr(s, p):
        return not s.info.is_local_ptr(p)

    def lvalue(s, p, acc_ty):
        """(lvalue C expr, slot natural type or None)"""
        T = s.em.T
        st = s.info.slot_type(p, acc_ty)
        pe = s.v(p)
        if st is not None:
            return '(*(%s *)%s)' % (T.ct(st), pe), st
        return '(*%s)' % pe, None

    # -------------------------------------------------------------- instructions
    def emit_instr(s, b, ins):
        em = s.em; T = em.T; body = s.body
        op = ins.op
        if op == 'alloca':
            body.append(s.assign(ins.res, s.allocas[ins.res]))
            return
        if op == 'load':
            p = ins.args[0]
            vis = s.is_visible_ptr(p)
            lv, st = s.lvalue(p, ins.ty)
            rt = s.mod.resolve(ins.ty)
            if isinstance(rt, (StructT, ArrayT)):
                T.need_complete(ins.ty)
            if vis:
                s.yield_point('load %s' % (ins.line or '')[:70])
            if vis and s.resumable and s.tso_here():
                body.append(s.tso_load(ins, p, lv, st))
            else:
                if st is not None and s.isp(ins.res):
                    body.append(s.assign_p(ins.res, lv))
                else:
                    body.append(s.assign(ins.res, '(%s)%s' % (T.ct(ins.ty), lv)))
            return
        if op == 'store':
            val, p = ins.args
            vis = s.is_visible_ptr(p)
            lv, st = s.lvalue(p, val.ty)
            if vis:
                s.yield_point('store %s' % (ins.line or '')[:70])
            if st is not None:
                ve = '(%s)%s' % (T.ct(st), s.pv(val))
            else:
                ve = s.v(val)
            if vis and s.resumable and s.tso_here():
                body.append(s.tso_store(ins, p, val, ve, st))
            else:
                body.append('%s = %s;' % (lv, ve))
            return
        if op == 'getelementptr':
            body.append(s.assign(ins.res, em.gep(ins.x['srcty'], ins.args, s)))
            return
        if op in ('bitcast', 'inttoptr', 'ptrtoint', 'trunc', 'zext', 'addrspacecast'):
            src = ins.args[0]
            if op == 'trunc' and ins.ty.bits == 1:
                body.append(s.assign(ins.res, '(_Bool)(%s & 1)' % s.v(src)))
            elif op == 'trunc' and ins.ty.bits not in (8, 16, 32, 64):
                body.append(s.assign(ins.res, '(%s)(%s & %s)' % (T.ct(ins.ty), s.v(src), hex((1 << ins.ty.bits) - 1))))
            else:
                if op == 'inttoptr':
                    body.append(s.assign(ins.res, '(%s)%s' % (T.ct(ins.ty), s.pv(src))))
                elif op == 'ptrtoint' and s.isp(ins.res):
                    body.append(s.assign_p(ins.res, s.v(src)))
                else:
                    body.append(s.assign(ins.res, '(%s)%s' % (T.ct(ins.ty), s.v(src))))
            return
        if op == 'sext':
            src = ins.args[0]
            body.append(s.assign(ins.res, '(%s)%s' % (T.ct(ins.ty), em.signed(ins.ty, em.signed(src.ty, s.v(src))))))
            return
        if op in BINOPS:
            a, b2 = ins.args
            if s.isp(ins.res) and op in ('add', 'sub'):
                ap = isinstance(a, Reg) and s.isp(a.name) or (isinstance(a, CExpr) and a.op == 'ptrtoint')
                bp = isinstance(b2, Reg) and s.isp(b2.name) or (isinstance(b2, CExpr) and b2.op == 'ptrtoint')
                if ap and not bp:
                    body.append(s.assign_p(ins.res, '(char *)%s %s (int64_t)%s' % (s.pv(a), '+' if op == 'add' else '-', s.v(b2))))
                    return
                if bp and not ap and op == 'add':
                    body.append(s.assign_p(ins.res, '(char *)%s + (int64_t)%s' % (s.pv(b2), s.v(a))))
                    return
            body.append(s.assign(ins.res, em.binop(op, ins.ty, s.v(a), s.v(b2))))
            return
        if op == 'icmp':
            body.append(s.assign(ins.res, em.icmp(ins.x['pred'], ins.args[0].ty, s.v(ins.args[0]), s.v(ins.args[1]))))
            return
        if op == 'select':
            if s.isp(ins.res):
                body.append(s.assign_p(ins.res, '%s ? %s : %s' % (s.v(ins.args[0]), s.pv(ins.args[1]), s.pv(ins.args[2]))))
            else:
                body.append(s.assign(ins.res, '%s ? %s : %s' % (s.v(ins.args[0]), s.v(ins.args[1]), s.v(ins.args[2]))))
            return
        if op == 'freeze':
            if s.isp(ins.res):
                body.append(s.assign_p(ins.res, s.pv(ins.args[0])))
            else:
                body.append(s.assign(ins.res, s.v(ins.args[0])))
            return
        if op == 'extractvalue':
            a0 = ins.args[0]
            d0 = s.info.defs.get(a0.name) if isinstance(a0, Reg) else None
            if d0 is not None and d0.op == 'cmpxchg' and ins.x['idx'] == [0] and s.isp(ins.res):
                body.append(s.assign(ins.res, '(uint64_t)%s_p0' % s.raw(a0.name)))
                return
            e = s.v(ins.args[0])
            for i in ins.x['idx']:
                e += '.f%d' % i
            body.append(s.assign(ins.res, e))
            return
        if op == 'insertvalue':
            body.append('%s = %s; %s%s = %s;' % (s.raw(ins.res), s.v(ins.args[0]), s.raw(ins.res),
                                                 ''.join('.f%d' % i for i in ins.x['idx']), s.v(ins.args[1])))
            return
        if op == 'br':
            tg = ins.x['targets']
            if len(tg) == 1:
                txt = s.edge(b.label, tg[0])
            else:
                txt = 'if (%s) %s else %s' % (s.v(ins.args[0]), s.edge(b.label, tg[0]), s.edge(b.label, tg[1]))
            if s.resumable and s.walk:
                body.append(Ctl('if (m == RT_RUN) { %s } @@HOP:%s@@' % (txt, b.label)))
            else:
                body.append(txt)
            return
        if op == 'switch':
            x = s.v(ins.args[0])
            parts = []
            for c, l in ins.x['cases']:
                parts.append('if (%s == %s) %s' % (x, em.cint(c, ins.args[0].ty), s.edge(b.label, l)))
            parts.append(s.edge(b.label, ins.x['default']))
            if s.resumable and s.walk:
                body.append(Ctl('if (m == RT_RUN) { %s } @@HOP:%s@@' % (' else '.join(parts), b.label)))
            else:
                body.append(' else '.join(parts))
            return
        if op == 'ret':
            if s.resumable and s.walk:
                body.append(Ctl('if (m == RT_RUN) %s_pc = %d; goto OUT;' % (s.prefix, DONE_PC)))
            elif s.resumable:
                body.append('%s_pc = %d; return;' % (s.prefix, DONE_PC))
            elif ins.args:
                body.append('return %s;' % s.v(ins.args[0]))
            else:
                body.append('return;')
            return
        if op == 'unreachable':
            body.append('RT_UNREACHABLE();')
            if s.resumable and s.walk:
                body.append(Ctl('goto OUT;'))
            elif s.resumable:
                body.append('%s_pc = %d; return;' % (s.prefix, DONE_PC))
            elif isinstance(s.f.fty.ret, VoidT):
                body.append('return;')
            else:
                body.append('return (%s)0;' % T.ct(s.f.fty.ret)) if not isinstance(
                    s.mod.resolve(s.f.fty.ret), (StructT, ArrayT)) else body.append('__CPROVER_assume(0);')
            return
        if op == 'fence':
            if ins.x.get('scope') == 'singlethread':
                return      # atomic_signal_fence: compiler barrier only
            if ins.x.get('order') in ('acquire', 'release', 'acq_rel'):
                return      # no-op on x86-TSO (no store->load ordering implied)
            s.yield_point('fence')
            body.append('RT_FENCE(%d);' % s.slot)
            return
        if op == 'call':
            s.emit_call(b, ins)
            return
        if op in ('atomicrmw', 'cmpxchg'):
            s.emit_atomic(ins)
            return
        raise Unsupported('emit %s' % op)

    # -------------------------------------------------------------- TSO
    def tso_load(s, ins, p, lv, st):
        T = s.em.T
        ct = T.ct(ins.ty)
        rt = s.mod.resolve(ins.ty)
        pe = s.v(p)
        if isinstance(rt, (StructT, ArrayT)):
            return 'rt_sb_drain(%d); %s = %s;' % (s.slot, s.raw(ins.res), lv)
        if st is not None or isinstance(rt, PtrT):
            if s.isp(ins.res):
                return '{ int h_ = rt_sb_find(%d, (void *)%s); if (h_ >= 0) %s else %s }' % (
                    s.slot, pe, s.assign_p(ins.res, 'rt_sb[%d][h_].pval' % s.slot), s.assign_p(ins.res, lv))
            return '{ int h_ = rt_sb_find(%d, (void *)%s); if (h_ >= 0) %s else %s }' % (
                s.slot, pe, s.assign(ins.res, '(%s)rt_sb[%d][h_].pval' % (ct, s.slot)), s.assign(ins.res, '(%s)%s' % (ct, lv)))
        return '{ int h_ = rt_sb_find(%d, (void *)%s); if (h_ >= 0) %s else %s }' % (
            s.slot, pe, s.assign(ins.res, '(%s)rt_sb[%d][h_].val' % (ct, s.slot)), s.assign(ins.res, '(%s)%s' % (ct, lv)))

    def tso_store(s, ins, p, val, ve, st):
        T = s.em.T
        rt = s.mod.resolve(val.ty)
        pe = s.v(p)
        seq = ins.x.get('order') == 'seq_cst'
        if isinstance(rt, (StructT, ArrayT)):
            lv, _ = s.lvalue(p, val.ty)
            return 'rt_sb_drain(%d); %s = %s;' % (s.slot, lv, ve)
        if st is not None or isinstance(rt, PtrT):
            txt = 'rt_sb_put(%d, (void *)%s, 0, (void *)%s, 0);' % (s.slot, pe, s.pv(val) if st is not None else ve)
        else:
            sz = s.mod.sizeof(val.ty)
            txt = 'rt_sb_put(%d, (void *)%s, (uint64_t)%s, (void *)0, %d);' % (s.slot, pe, ve, sz)
        if seq:
            txt += ' rt_sb_drain(%d);' % s.slot
        return txt

    # -------------------------------------------------------------- calls
    def emit_call(s, b, ins):
        em = s.em; T = em.T; body = s.body
        cal = ins.x['callee']
        if isinstance(cal, InlineAsm):
            asmtab.emit_asm(s, ins, cal)
            return
        while isinstance(cal, CExpr) and cal.op == 'bitcast':
            cal = cal.args[0]
        if not isinstance(cal, GlobalRef):
            raise Unsupported('indirect call survived: %r' % (ins.line,))
        n = cal.name
        args = ins.args
        if n.startswith('llvm.'):
            s.emit_intrinsic(n, ins)
            return
        res = ''
        if ins.res is not None and not isinstance(ins.ty, VoidT):
            res = (s.raw(ins.res) + ' = (void *)') if s.isp(ins.res) else (s.raw(ins.res) + ' = ')
        if n in ('rt_assert', 'rt_cover', 'rt_assume', 'rt_nondet_u64', 'rt_nondet_u32', 'rt_nondet_bool',
                 'rt_nondet_u8', 'rt_stamp', 'rt_self', 'rt_gset', 'rt_gget', 'rt_bset', 'rt_bget'):
            s.emit_rt_builtin(n, ins, res)
            return
        if not s.resumable and em.plain_calls and n in s.mod.functions and n not in em.stubs:
            em.atomic_needed.add((n, s.slot))
            body.append('%sF%d_%s(%s);' % (res, s.slot, san(n), ', '.join(s.v(a) for a in args)))
            return
        if n in em.atomic:
            # plain-mode harness function executed as one step
            em.atomic_needed.add((n, s.slot))
            s.yield_point('atomic %s' % n)
            if s.resumable and s.tso_here() and n not in em.spec.get('nodrain', ()):
                body.append('rt_sb_drain(%d);' % s.slot)
            body.append('%sF%d_%s(%s);' % (res, s.slot, san(n), ', '.join(s.v(a) for a in args)))
            if n in em.spec.get('blocking_atomic', ()):
                s.block_check()
            return
        # primitive
        fty = fn_type_of(s.mod, n) if (n in s.mod.functions or n in s.mod.declares) else None
        pname = n
        if n == 'syscall':
            num = args[0]
            if not isinstance(num, CInt):
                raise Unsupported('syscall with symbolic number')
            pname = {202: 'futex', 324: 'membarrier', 186: 'gettid'}.get(num.v)
            if pname is None:
                raise Unsupported('syscall %d' % num.v)
            args = args[1:]
            fty = FuncT(IntT(64), [a.ty for a in args], False)
            em.proto('sys_' + pname, fty)
            pname_c = 'sys_' + pname
        elif fty is not None and fty.vararg:
            # printf-like: dropped
            body.append('/* vararg call %s dropped */' % n)
            if res:
                body.append('%s(%s)0;' % (res, T.ct(ins.ty)))
            return
        else:
            if fty is None:
                fty = FuncT(ins.ty, [a.ty for a in args], False)
            em.proto(n, fty)
            pname_c = n
        if n in ('malloc', 'calloc', 'free', 'realloc', 'posix_memalign'):
            s.emit_alloc(n, ins)
            return
        vis = pname not in em.invisible_prims and n not in em.invisible_prims
        if vis:
            s.yield_point('prim %s' % pname)
            if s.resumable and s.tso_here():
                body.append('rt_sb_drain(%d);' % s.slot)
        al = []
        for a in args:
            at = s.mod.resolve(a.ty)
            if isinstance(at, PtrT):
                al.append('(void *)%s' % s.v(a))
            else:
                al.append(s.v(a))
        callx = 'P_%s(%s)' % (san(pname_c), ', '.join(al))
        if res:
            body.append('%s(%s)%s;' % (res, T.ct(ins.ty), callx))
        else:
            body.append('%s;' % callx)
        if n in ('abort', '__assert_fail'):
            body.append('RT_ASSUME(0); /* the process is gone */')
        if n == 'pthread_exit':
            if s.resumable and s.walk:
                body.append('%s_pc = %d; m = RT_STOP;' % (s.prefix, DONE_PC))
                body.append(Ctl('/* after pthread_exit */'))
            elif s.resumable:
                body.append('%s_pc = %d; return;' % (s.prefix, DONE_PC))
            else:
                body.append('RT_ASSERT(0, "pthread_exit in sequential code"); RT_ASSUME(0);')
            return
        if s.resumable and (pname in em.blocking or n in em.blocking):
            s.block_check()
        elif (pname in em.blocking or n in em.blocking):
            body.append('RT_BLOCK_PLAIN();')
        if s.resumable and (pname in em.hint_prims or n in em.hint_prims):
            s.spin_yield()
        elif (pname in em.hint_prims or n in em.hint_prims):
            body.append('RT_SPIN_PLAIN();')

    def cstring(s, v):
        v = strip_casts(v)
        while isinstance(v, CExpr) and v.op == 'getelementptr':
            v = v.args[0]
        if isinstance(v, GlobalRef) and v.name in s.mod.globals:
            g = s.mod.globals[v.name]
            if isinstance(g.init, CStr):
                return g.init.data.rstrip('\x00')
        return None

    def emit_rt_builtin(s, n, ins, res):
        body = s.body; a = ins.args; T = s.em.T
        if n in ('rt_assert', 'rt_cover'):
            msg = s.cstring(a[1]) if len(a) > 1 else None
            if msg is None:
                msg = 'harness assertion'
            msg = re.sub(r'[^A-Za-z0-9_ .,:;()<>=!+*/&|-]', '_', msg)
            s.em.messages.append((n, msg))
            body.append('%s(%s, "%s");' % ('RT_ASSERT' if n == 'rt_assert' else 'RT_COVER', s.v(a[0]), msg))
        elif n == 'rt_assume':
            body.append('RT_ASSUME(%s);' % s.v(a[0]))
        elif n == 'rt_nondet_u64':
            body.append('%s(%s)nondet_u64();' % (res, T.ct(ins.ty)))
        elif n in ('rt_nondet_u32', 'rt_nondet_u8'):
            body.append('%s(%s)nondet_uint();' % (res, T.ct(ins.ty)))
        elif n == 'rt_nondet_bool':
            body.append('%s(%s)nondet_bool();' % (res, T.ct(ins.ty)))
        elif n == 'rt_stamp':
            body.append('%s(%s)(++rt_clock);' % (res, T.ct(ins.ty)))
        elif n == 'rt_gset':
            body.append('rt_ghost[%s] = (uint64_t)%s;' % (s.v(a[0]), s.v(a[1])))
        elif n == 'rt_gget':
            body.append('%s(%s)rt_ghost[%s];' % (res, T.ct(ins.ty), s.v(a[0])))
        elif n == 'rt_bset':
            body.append('rt_gbank[%s][%s] = (uint32_t)%s;' % (s.v(a[0]), s.v(a[1]), s.v(a[2])))
        elif n == 'rt_bget':
            body.append('%s(%s)rt_gbank[%s][%s];' % (res, T.ct(ins.ty), s.v(a[0]), s.v(a[1])))
        elif n == 'rt_self':
            body.append('%s(%s)%d;' % (res, T.ct(ins.ty), s.slot))

    def block_check(s):
        if s.resumable and s.walk:
            s.body.append('if (rt_block) { rt_block = 0; rt_blocked[%d] = 1; rt_ever_waited[%d] = 1; %s_pc = %d; m = RT_STOP; }' %
                          (s.slot, s.slot, s.prefix, s.nvis))
            # statements after a blocking primitive must not run when it blocked: close the RUN group here
            s.body.append(Ctl('/* after blocking primitive */'))
        elif s.resumable:
            s.body.append('if (rt_block) { rt_block = 0; rt_blocked[%d] = 1; %s_pc = %d; return; }' %
                          (s.slot, s.prefix, s.nvis))

    def result_cast_type(s, ins):
        """for malloc-like result: the struct type the i8* result is bitcast to (first such use)"""
        for bb in s.f.blocks:
            for j in bb.instrs:
                if j.op == 'bitcast' and isinstance(j.args[0], Reg) and j.args[0].name == ins.res:
                    if isinstance(j.ty, PtrT) and not isinstance(s.mod.resolve(j.ty.to), (IntT, VoidT)):
                        return j.ty.to
        return None

    def emit_alloc(s, n, ins):
        em = s.em; T = em.T; body = s.body
        args = ins.args
        s.yield_point('prim %s' % n)
        if s.resumable and s.tso_here():
            body.append('rt_sb_drain(%d);' % s.slot)
        r = s.raw(ins.res) if ins.res is not None else None
        if n == 'free':
            body.append('RT_FREE((void *)%s);' % s.v(args[0]))
            return
        if n in ('malloc', 'calloc'):
            ct = s.result_cast_type(ins)
            if n == 'malloc':
                tot = args[0]
            else:
                tot = None
                if isinstance(args[0], CInt) and isinstance(args[1], CInt):
                    tot = CInt(args[0].v * args[1].v, IntT(64))
            zero = 1 if n == 'calloc' else 0
            if ct is not None and isinstance(tot, CInt) and s.mod.sizeof(ct) > 0 and tot.v % s.mod.sizeof(ct) == 0:
                T.need_complete(ct)
                k = tot.v // s.mod.sizeof(ct)
                body.append('%s = (uint8_t *)RT_ALLOC(sizeof(%s) * %d, %d);' % (r, T.ct(ct), k, zero))
            else:
                if n == 'malloc':
                    body.append('%s = (uint8_t *)RT_ALLOC(%s, 0);' % (r, s.v(args[0])))
                else:
                    body.append('%s = (uint8_t *)RT_ALLOC(%s * %s, 1);' % (r, s.v(args[0]), s.v(args[1])))
            return
        # not modelled: fails closed if it is ever reached
        body.append('RT_ASSERT(0, "%s reached but not modelled"); RT_ASSUME(0);' % n)
        if r is not None:
            body.append('%s = 0;' % r)

    def emit_intrinsic(s, n, ins):
        em = s.em; T = em.T; body = s.body
        a = ins.args
        if n.startswith('llvm.lifetime') or n.startswith('llvm.dbg') or n.startswith('llvm.assume') \
                or n.startswith('llvm.experimental.noalias'):
            return
        if n.startswith('llvm.expect'):
            body.append(s.assign(ins.res, s.v(a[0])))
            return
        if n.startswith('llvm.memset') or n.startswith('llvm.memcpy') or n.startswith('llvm.memmove'):
            dst = a[0]
            vis = s.is_visible_ptr(dst) or (not n.startswith('llvm.memset') and s.is_visible_ptr(a[1]))
            if vis:
                s.yield_point(n)
                if s.resumable and s.tso_here():
                    body.append('rt_sb_drain(%d);' % s.slot)
            ln = a[2]
            dpt = s.info.origin_pointee(dst)
            if isinstance(ln, CInt) and dpt is not None and not isinstance(s.mod.resolve(dpt), (IntT, VoidT, OpaqueT, ArrayT)) \
                    and s.mod.sizeof(dpt) == ln.v:
                T.need_complete(dpt)
                ct = T.ct(dpt)
                if n.startswith('llvm.memset'):
                    if isinstance(a[1], CInt) and a[1].v == 0:
                        body.append('*(%s *)%s = (%s){0};' % (ct, s.v(dst), ct))
                        return
                else:
                    spt = s.info.origin_pointee(a[1])
                    if spt is not None and teq(spt, dpt):
                        body.append('*(%s *)%s = *(%s *)%s;' % (ct, s.v(dst), ct, s.v(a[1])))
                        return
            if n.startswith('llvm.memset'):
                body.append('RT_MEMSET((void *)%s, %s, %s);' % (s.v(dst), s.v(a[1]), s.v(ln)))
            else:
                body.append('RT_MEMCPY((void *)%s, (void *)%s, %s);' % (s.v(dst), s.v(a[1]), s.v(ln)))
            return
        if n.startswith('llvm.ctpop'):
            body.append(s.assign(ins.res, '(%s)__builtin_popcountll((uint64_t)%s)' % (T.ct(ins.ty), s.v(a[0]))))
            return
        if n.startswith('llvm.umax') or n.startswith('llvm.umin'):
            o = '>' if 'umax' in n else '<'
            body.append(s.assign(ins.res, '(%s %s %s) ? %s : %s' % (s.v(a[0]), o, s.v(a[1]), s.v(a[0]), s.v(a[1]))))
            return
        if n.startswith('llvm.smax') or n.startswith('llvm.smin'):
            o = '>' if 'smax' in n else '<'
            body.append(s.assign(ins.res, '(%s %s %s) ? %s : %s' % (em.signed(ins.ty, s.v(a[0])), o,
                                                                     em.signed(ins.ty, s.v(a[1])), s.v(a[0]), s.v(a[1]))))
            return
        if n.startswith('llvm.ctlz') or n.startswith('llvm.cttz'):
            bits = ins.ty.bits
            fn = '__builtin_clzll' if 'ctlz' in n else '__builtin_ctzll'
            adj = (' - %d' % (64 - bits)) if 'ctlz' in n and bits < 64 else ''
            body.append(s.assign(ins.res, '(%s == 0) ? %d : (%s)(%s((uint64_t)%s)%s)' % (
                s.v(a[0]), bits, T.ct(ins.ty), fn, s.v(a[0]), adj)))
            return
        if n.startswith('llvm.bswap'):
            body.append(s.assign(ins.res, '__builtin_bswap%d(%s)' % (ins.ty.bits, s.v(a[0]))))
            return
        if n.startswith('llvm.trap'):
            body.append('RT_ABORT("trap");')
            return
        raise Unsupported('intrinsic %s' % n)

    def emit_atomic(s, ins):
        """atomicrmw / cmpxchg instructions (configuration B: compiler builtins)"""
        em = s.em; T = em.T; body = s.body
        p = ins.args[0]
        vis = s.is_visible_ptr(p)
        if vis:
            s.yield_point(ins.op)
            if s.resumable and s.tso_here():
                body.append('rt_sb_drain(%d);' % s.slot)
        if ins.op == 'atomicrmw':
            val = ins.args[1]
            lv, st = s.lvalue(p, val.ty)
            ct = T.ct(val.ty)
            old = s.reg(ins.res)
            cur = '(%s)%s' % (ct, lv)
            oldset = s.assign(ins.res, cur)
            rop = ins.x['rop']
            ve = s.v(val)
            if st is not None:
                oldset = s.assign_p(ins.res, lv)
            if rop == 'xchg':
                new = s.pv(val) if st is not None else ve
            elif rop in ('add', 'sub', 'and', 'or', 'xor'):
                new = em.binop(rop, val.ty, old, ve)
            elif rop == 'nand':
                new = '((%s)~(%s & %s))' % (ct, old, ve)
            elif rop in ('umax', 'umin'):
                new = '((%s %s %s) ? %s : %s)' % (old, '>' if rop == 'umax' else '<', ve, old, ve)
            else:
                raise Unsupported('atomicrmw %s' % rop)
            body.append('%s %s = %s%s;' % (oldset, lv, ('(%s)' % T.ct(st)) if st is not None else '', new))
        else:
            cmpv, newv = ins.args[1], ins.args[2]
            lv, st = s.lvalue(p, cmpv.ty)
            ct = T.ct(cmpv.ty)
            r = s.raw(ins.res)
            T.need_complete(ins.ty)
            cast = ('(%s)' % T.ct(st)) if st is not None else ''
            pre = ''
            if st is not None:
                s.extra.append('%svoid *%s_p0;' % ('static ' if s.resumable else '', r))
                pre = '%s_p0 = (void *)%s; ' % (r, lv)
            body.append('%s%s.f0 = (%s)%s; %s.f1 = (%s.f0 == %s); if (%s.f1) %s = %s%s;' % (
                pre, r, ct, lv, r, r, s.v(cmpv), r, lv, cast, s.pv(newv) if st is not None else s.v(newv)))
