"""IR-level passes: register typing, indirect-call resolution, inlining, escape analysis,
pointer-slot ("natural type") recovery."""
import copy
import itertools
from ir import *

INTRINSIC_PREFIX = 'llvm.'


def gep_result_type(mod, srcty, args):
    """type of getelementptr result (pointer to walked type)"""
    t = srcty
    for idx in args[2:]:
        rt = mod.resolve(t)
        if isinstance(rt, StructT):
            if not isinstance(idx, CInt):
                raise Unsupported('non-constant struct index')
            t = rt.fields[idx.v]
        elif isinstance(rt, ArrayT):
            t = rt.elem
        else:
            raise Unsupported('gep into %r' % (rt,))
    return PtrT(t)


def value_type(mod, v):
    if isinstance(v, CExpr) and v.op == 'getelementptr' and v.ty is None:
        v.ty = gep_result_type(mod, v.srcty, v.args)
    return v.ty


def compute_regtypes(mod, f):
    rt = {}
    for p in f.params:
        rt[p.name] = p.ty
    for b in f.blocks:
        for ins in b.instrs:
            if ins.op == 'getelementptr' and ins.ty is None:
                ins.ty = gep_result_type(mod, ins.x['srcty'], ins.args)
            if ins.op == 'extractvalue' and ins.ty is None:
                t = ins.args[0].ty
                for i in ins.x['idx']:
                    r = mod.resolve(t)
                    t = r.fields[i] if isinstance(r, StructT) else r.elem
                ins.ty = t
            if ins.res is not None:
                rt[ins.res] = ins.ty
    f.regtypes = rt
    return rt


# ----------------------------------------------------------------------------- operand walking
def instr_values(ins):
    """yield (container, key) for every Value operand so it can be replaced"""
    for i in range(len(ins.args)):
        yield ins.args, i
    if 'callee' in ins.x:
        yield ins.x, 'callee'
    if ins.x.get('count') is not None:
        yield ins.x, 'count'
    if 'incoming' in ins.x:
        inc = ins.x['incoming']
        for i in range(len(inc)):
            yield _PairProxy(inc, i), 0


class _PairProxy:
    def __init__(s, lst, i): s.lst = lst; s.i = i
    def __getitem__(s, k): return s.lst[s.i][0]
    def __setitem__(s, k, v): s.lst[s.i] = (v, s.lst[s.i][1])


def map_value(v, fn):
    """rebuild value v applying fn to Reg leaves (also inside constant expressions)"""
    if isinstance(v, Reg):
        return fn(v)
    if isinstance(v, CExpr):
        na = [map_value(a, fn) for a in v.args]
        if any(x is not y for x, y in zip(na, v.args)):
            return CExpr(v.op, na, v.ty, v.srcty, v.extra)
        return v
    return v


def walk_value(v, visit):
    visit(v)
    if isinstance(v, CExpr):
        for a in v.args:
            walk_value(a, visit)
    if isinstance(v, CAgg):
        for a in v.elems:
            walk_value(a, visit)


def successors(ins):
    if ins.op == 'br':
        return list(ins.x['targets'])
    if ins.op == 'switch':
        return [ins.x['default']] + [l for _, l in ins.x['cases']]
    return []


# ----------------------------------------------------------------------------- address-taken functions
def address_taken(mod):
    taken = set()

    def vis(v):
        if isinstance(v, GlobalRef) and (v.name in mod.functions or v.name in mod.declares):
            taken.add(v.name)
    for g in mod.globals.values():
        if g.init is not None:
            walk_value(g.init, vis)
    for f in mod.functions.values():
        for b in f.blocks:
            for ins in b.instrs:
                for cont, k in instr_values(ins):
                    if cont is ins.x and k == 'callee':
                        # a direct callee is not "address taken", but bitcast callee args count
                        v = cont[k]
                        if isinstance(v, GlobalRef):
                            continue
                    walk_value(cont[k], vis)
    return taken


def fn_type_of(mod, name):
    if name in mod.functions:
        return mod.functions[name].fty
    return mod.declares[name]


# ----------------------------------------------------------------------------- inliner
class Inliner:
    def __init__(s, mod, is_prim, indirect_filter=None, log=None, stub_map=None, indirect_hook=None, indirect_only=None):
        s.stub_map = stub_map or {}            # callee name -> replacement function (defined in the harness TU)
        s.indirect_hook = indirect_hook or {}  # containing function -> harness function called as hook(fp, args...)
        s.indirect_only = indirect_only or {}  # containing function -> explicit candidate list
        s.mod = mod
        s.is_prim = is_prim            # name -> bool : leave as call
        s.cache = {}
        s.uid = itertools.count()
        s.taken = address_taken(mod)
        s.indirect_filter = indirect_filter  # callable(caller_root, fty, candidates)->candidates
        s.log = log if log is not None else []
        s.root = None

    @staticmethod
    def _loose(t):
        """signature shape: pointers compare equal whatever they point to (llvm-link renames struct types that two TUs
        define, so nominal equality would drop genuine targets)"""
        def k(x):
            if isinstance(x, PtrT):
                return 'p'
            if isinstance(x, IntT):
                return 'i%d' % x.bits
            if isinstance(x, VoidT):
                return 'v'
            return repr(x.key())
        return (k(t.ret), tuple(k(p) for p in t.params), t.vararg)

    def candidates(s, fty):
        c = []
        lk = s._loose(fty)
        for n in sorted(s.taken):
            if n in s.mod.functions and s._loose(fn_type_of(s.mod, n)) == lk:
                c.append(n)
        if s.indirect_filter:
            c = s.indirect_filter(s.root, fty, c)
        return c

    def inline_root(s, name):
        s.root = name
        f = s._inlined(name, ())
        compute_regtypes(s.mod, f)
        return f

    def _inlined(s, name, stack):
        if name in stack:
            raise Unsupported('recursion through %s' % name)
        key = (name, getattr(s, 'mode_tag', ''), s.root if s.indirect_filter else None)
        if key in s.cache:
            return s.cache[key]
        f = copy.deepcopy(s.mod.functions[name])
        if s.stub_map:
            for b in f.blocks:
                for ins in b.instrs:
                    if ins.op == 'call':
                        cal = ins.x['callee']
                        while isinstance(cal, CExpr) and cal.op == 'bitcast':
                            cal = cal.args[0]
                        if isinstance(cal, GlobalRef) and cal.name in s.stub_map:
                            ins.x['callee'] = GlobalRef(s.stub_map[cal.name], cal.ty)
        s._resolve_indirect(f)
        changed = True
        while changed:
            changed = False
            for bi, b in enumerate(f.blocks):
                for ii, ins in enumerate(b.instrs):
                    if ins.op != 'call':
                        continue
                    cal = ins.x['callee']
                    # strip bitcast of function constant
                    while isinstance(cal, CExpr) and cal.op == 'bitcast':
                        cal = cal.args[0]
                    if not isinstance(cal, GlobalRef):
                        continue
                    n = cal.name
                    if n.startswith(INTRINSIC_PREFIX) or n not in s.mod.functions or s.is_prim(n):
                        continue
                    g = s._inlined(n, stack + (name,))
                    s._splice(f, bi, ii, g)
                    changed = True
                    break
                if changed:
                    break
        s.cache[key] = f
        return f

    def _resolve_indirect(s, f):
        nb = []
        work = list(f.blocks)
        out = []
        for b in work:
            cur = b
            out.append(cur)
            i = 0
            while i < len(cur.instrs):
                ins = cur.instrs[i]
                if ins.op == 'call' and isinstance(ins.x['callee'], Reg):
                    fp = ins.x['callee']
                    fty = ins.x['fty'] or FuncT(ins.ty, [a.ty for a in ins.args], False)
                    hk = f.name if f.name in s.indirect_hook else ('type:' + repr(fty))
                    if hk in s.indirect_hook:
                        hook = s.indirect_hook[hk]
                        s.log.append(('indirect-hook', f.name, repr(fty), hook))
                        ins.x['callee'] = GlobalRef(hook, None)
                        rtys = compute_regtypes(s.mod, f)
                        ins.args = [Reg(fp.name, rtys.get(fp.name) or PtrT(fty))] + list(ins.args)
                        ins.x['fty'] = None
                        i += 1
                        continue
                    if f.name in s.indirect_only:
                        cands = list(s.indirect_only[f.name])
                    else:
                        cands = s.candidates(fty)
                    s.log.append(('indirect', f.name, repr(fty), list(cands)))
                    u = next(s.uid)
                    post = Block('ic%d.post' % u)
                    post.instrs = cur.instrs[i + 1:]
                    cur.instrs = cur.instrs[:i]
                    incoming = []
                    chain_lab = ['ic%d.t%d' % (u, k) for k in range(len(cands))] + ['ic%d.bad' % u]
                    cur.instrs.append(Instr('br', None, VoidT(), [], targets=[chain_lab[0]]))
                    newblocks = []
                    for k, cn in enumerate(cands):
                        tb = Block(chain_lab[k])
                        cb = Block('ic%d.c%d' % (u, k))
                        creg = 'ic%d.e%d' % (u, k)
                        tb.instrs.append(Instr('icmp', creg, IntT(1),
                                               [fp, GlobalRef(cn, PtrT(fty))], pred='eq'))
                        tb.instrs.append(Instr('br', None, VoidT(), [Reg(creg, IntT(1))],
                                               targets=[cb.label, chain_lab[k + 1]]))
                        rres = None
                        if ins.res is not None:
                            rres = 'ic%d.r%d' % (u, k)
                            incoming.append((Reg(rres, ins.ty), cb.label))
                        cb.instrs.append(Instr('call', rres, ins.ty, list(ins.args),
                                               callee=GlobalRef(cn, PtrT(fty)), fty=ins.x.get('fty')))
                        cb.instrs.append(Instr('br', None, VoidT(), [], targets=[post.label]))
                        newblocks += [tb, cb]
                    bad = Block(chain_lab[-1])
                    bad.instrs.append(Instr('call', None, VoidT(), [], callee=GlobalRef('__irseq_bad_indirect', None),
                                            fty=None))
                    bad.instrs.append(Instr('unreachable', None, VoidT(), []))
                    newblocks.append(bad)
                    if ins.res is not None:
                        if not incoming:
                            # no candidate: result undefined
                            post.instrs.insert(0, Instr('freeze', ins.res, ins.ty, [CUndef(ins.ty)]))
                        else:
                            post.instrs.insert(0, Instr('phi', ins.res, ins.ty, [], incoming=incoming))
                    # successors' phis: cur.label -> post.label
                    s._retarget_phis(f, work + newblocks + [post], post, cur.label)
                    out += newblocks
                    out.append(post)
                    cur = post
                    i = 0
                    continue
                i += 1
        f.blocks = out
        s.mod.declares.setdefault('__irseq_bad_indirect', FuncT(VoidT(), [], False))

    def _retarget_phis(s, f, allblocks, post, oldlab):
        term = post.instrs[-1] if post.instrs else None
        if term is None:
            return
        succ = set(successors(term))
        for b in allblocks:
            if b.label in succ:
                for ins in b.instrs:
                    if ins.op != 'phi':
                        break
                    ins.x['incoming'] = [(v, post.label if l == oldlab else l) for v, l in ins.x['incoming']]

    def _splice(s, f, bi, ii, g):
        u = next(s.uid)
        pre = f.blocks[bi]
        call = pre.instrs[ii]
        post = Block('in%d.post' % u)
        post.instrs = pre.instrs[ii + 1:]
        pre.instrs = pre.instrs[:ii]
        pfx = 'in%d.' % u
        pmap = {}
        for p, a in zip(g.params, call.args):
            pmap[p.name] = a

        def rn(v):
            if v.name in pmap:
                return pmap[v.name]
            return Reg(pfx + v.name, v.ty)
        newblocks = []
        rets = []
        for gb in g.blocks:
            nb = Block(pfx + gb.label)
            for gi in gb.instrs:
                ni = Instr(gi.op, (pfx + gi.res) if gi.res is not None else None, gi.ty, list(gi.args))
                ni.line = gi.line
                ni.x = dict(gi.x)
                if 'incoming' in ni.x:
                    ni.x['incoming'] = [(map_value(v, rn), pfx + l) for v, l in ni.x['incoming']]
                ni.args = [map_value(a, rn) for a in ni.args]
                if 'callee' in ni.x:
                    ni.x['callee'] = map_value(ni.x['callee'], rn)
                if ni.x.get('count') is not None:
                    ni.x['count'] = map_value(ni.x['count'], rn)
                if 'targets' in ni.x:
                    ni.x['targets'] = [pfx + l for l in ni.x['targets']]
                if 'default' in ni.x:
                    ni.x['default'] = pfx + ni.x['default']
                    ni.x['cases'] = [(c, pfx + l) for c, l in ni.x['cases']]
                if ni.op == 'ret':
                    if ni.args:
                        rets.append((ni.args[0], nb.label))
                    ni = Instr('br', None, VoidT(), [], targets=[post.label])
                nb.instrs.append(ni)
            newblocks.append(nb)
        pre.instrs.append(Instr('br', None, VoidT(), [], targets=[newblocks[0].label]))
        if call.res is not None:
            if rets:
                post.instrs.insert(0, Instr('phi', call.res, call.ty, [], incoming=rets))
            else:
                post.instrs.insert(0, Instr('freeze', call.res, call.ty, [CUndef(call.ty)]))
        f.blocks[bi + 1:bi + 1] = newblocks + [post]
        s._retarget_phis(f, f.blocks, post, pre.label)


# ----------------------------------------------------------------------------- analyses on an inlined function
def strip_casts(v):
    """follow bitcasts (constant expressions only) to the origin value"""
    while isinstance(v, CExpr) and v.op == 'bitcast':
        v = v.args[0]
    return v


class FuncInfo:
    """def-use info, escape analysis for allocas, pointee recovery for integer registers"""

    def __init__(s, mod, f):
        s.mod = mod; s.f = f
        s.defs = {}
        for b in f.blocks:
            for ins in b.instrs:
                if ins.res is not None:
                    s.defs[ins.res] = ins
        s._escape()
        s._int_pointee()
        s._ptrlike()
        s._liveness()

    # -- which allocas never escape the thread
    def base_alloca(s, v, seen=None):
        """return alloca reg name if pointer value v is derived (gep/bitcast) from a single alloca"""
        depth = 0
        while depth < 50:
            depth += 1
            if isinstance(v, CExpr) and v.op in ('bitcast', 'getelementptr'):
                v = v.args[0]; continue
            if isinstance(v, Reg):
                d = s.defs.get(v.name)
                if d is None:
                    return None
                if d.op == 'alloca':
                    return d.res
                if d.op in ('bitcast', 'getelementptr'):
                    v = d.args[0]; continue
            return None
        return None

    def _escape(s):
        esc = set()
        allocas = {n for n, d in s.defs.items() if d.op == 'alloca'}

        def mark(v):
            def vis(x):
                if isinstance(x, Reg):
                    a = s.base_alloca(x)
                    if a:
                        esc.add(a)
            walk_value(v, vis)
        for b in s.f.blocks:
            for ins in b.instrs:
                if ins.op == 'store':
                    mark(ins.args[0])
                elif ins.op == 'call':
                    cal = ins.x['callee']
                    nm = cal.name if isinstance(cal, GlobalRef) else ''
                    if nm.startswith('llvm.lifetime') or nm.startswith('llvm.dbg'):
                        continue
                    if nm.startswith('llvm.memset') or nm.startswith('llvm.memcpy') or nm.startswith('llvm.memmove'):
                        continue
                    for a in ins.args:
                        mark(a)
                elif ins.op in ('ptrtoint', 'phi', 'select', 'ret', 'insertvalue', 'icmp'):
                    if ins.op == 'icmp':
                        continue
                    if ins.op == 'phi':
                        for v, _ in ins.x['incoming']:
                            mark(v)
                    else:
                        for a in ins.args:
                            mark(a)
                elif ins.op in ('atomicrmw', 'cmpxchg'):
                    for a in ins.args[1:]:
                        mark(a)
        s.escaped = esc
        s.local_allocas = allocas - esc

    def is_local_ptr(s, v):
        a = s.base_alloca(v)
        return a is not None and a in s.local_allocas

    # -- integer registers that hold pointers: which type do they point to
    def natural_scalar(s, t):
        """descend type t at offset 0 to the first scalar; return it (or None)"""
        mod = s.mod
        for _ in range(64):
            r = mod.resolve(t)
            if isinstance(r, StructT):
                if not r.fields:
                    return None
                t = r.fields[0]
            elif isinstance(r, ArrayT):
                if r.n == 0:
                    return None
                t = r.elem
            else:
                return r
        return None

    def origin_pointee(s, p):
        """for a pointer value p, return the pointee type of the un-cast origin (None if unknown)"""
        for _ in range(64):
            if isinstance(p, CExpr):
                if p.op == 'bitcast':
                    p = p.args[0]; continue
                if p.op == 'getelementptr' and all(isinstance(a, CInt) and a.v == 0 for a in p.args[1:]):
                    p = p.args[0]; continue
                if p.op == 'inttoptr':
                    a = p.args[0]
                    if isinstance(a, Reg) and a.name in s.int_pointee:
                        return s.int_pointee[a.name]
                    if isinstance(a, CExpr) and a.op == 'ptrtoint':
                        p = a.args[0]; continue
                    return None
                t = value_type(s.mod, p)
                return t.to if isinstance(t, PtrT) else None
            if isinstance(p, Reg):
                d = s.defs.get(p.name)
                if d is not None:
                    if d.op == 'bitcast':
                        p = d.args[0]; continue
                    if d.op == 'getelementptr' and all(isinstance(a, CInt) and a.v == 0 for a in d.args[1:]):
                        p = d.args[0]; continue
                    if d.op == 'inttoptr':
                        a = d.args[0]
                        if isinstance(a, Reg) and a.name in s.int_pointee:
                            return s.int_pointee[a.name]
                        if isinstance(a, CExpr) and a.op == 'ptrtoint':
                            p = a.args[0]; continue
                        # fall through to the declared type
                t = p.ty if p.ty is not None else s.f.regtypes.get(p.name)
                return t.to if isinstance(t, PtrT) else None
            if isinstance(p, GlobalRef):
                if p.name in s.mod.globals:
                    return s.mod.globals[p.name].ty
                return None
            return None
        return None

    def slot_type(s, p, acc_ty):
        """natural scalar type of the memory slot accessed through pointer p as acc_ty.
        returns a Type when it differs usefully from acc_ty (pointer slot accessed as integer), else None"""
        if not isinstance(acc_ty, IntT) or acc_ty.bits != 64:
            return None
        pt = s.origin_pointee(p)
        if pt is None:
            return None
        sc = s.natural_scalar(pt)
        if isinstance(sc, PtrT):
            return sc
        return None

    def _interesting(s, t):
        """pointee types worth recording (not i8/i64 views)"""
        r = s.mod.resolve(t)
        return not isinstance(r, (IntT, VoidT))

    def _int_pointee(s):
        s.int_pointee = {}
        changed = True
        it = 0
        while changed and it < 20:
            changed = False
            it += 1
            for b in s.f.blocks:
                for ins in b.instrs:
                    if ins.res is None or ins.res in s.int_pointee:
                        continue
                    if not (isinstance(ins.ty, IntT) and ins.ty.bits == 64):
                        continue
                    t = None
                    if ins.op == 'ptrtoint':
                        pt = s.origin_pointee(ins.args[0])
                        if pt is not None and s._interesting(pt):
                            t = pt
                    elif ins.op == 'load':
                        st = s.slot_type(ins.args[0], ins.ty)
                        if st is not None and s._interesting(st.to):
                            t = st.to
                    elif ins.op == 'call' and isinstance(ins.x['callee'], InlineAsm):
                        # result of xchg/cmpxchg/xadd on a pointer slot
                        for a in ins.args:
                            if isinstance(value_type(s.mod, a), PtrT):
                                st = s.slot_type(a, ins.ty)
                                if st is not None and s._interesting(st.to):
                                    t = st.to
                                break
                    elif ins.op in ('phi', 'select', 'and', 'or', 'add', 'sub', 'freeze'):
                        srcs = [v for v, _ in ins.x['incoming']] if ins.op == 'phi' else \
                            (ins.args[1:] if ins.op == 'select' else ins.args)
                        for v in srcs:
                            if isinstance(v, Reg) and v.name in s.int_pointee:
                                t = s.int_pointee[v.name]; break
                            if isinstance(v, CExpr) and v.op == 'ptrtoint':
                                pt = s.origin_pointee(v.args[0])
                                if pt is not None and s._interesting(pt):
                                    t = pt; break
                    if t is None:
                        # sibling use: inttoptr of this register to a typed pointer
                        pass
                    if t is not None:
                        s.int_pointee[ins.res] = t
                        changed = True
            # sibling inttoptr uses
            for b in s.f.blocks:
                for ins in b.instrs:
                    if ins.op == 'inttoptr' and isinstance(ins.args[0], Reg):
                        a = ins.args[0].name
                        if a not in s.int_pointee and isinstance(ins.ty, PtrT) and s._interesting(ins.ty.to):
                            s.int_pointee[a] = ins.ty.to
                            changed = True

    # -- i64 registers that may carry a pointer value: they are declared as C pointers so that CBMC's
    #    points-to tracking is never routed through an integer variable (an integer-typed carrier silently
    #    degrades a later dereference to CBMC's integer-address memory, i.e. the store is lost)
    def _asm_mem_is_ptr_slot(s, ins):
        for a in ins.args:
            if isinstance(value_type(s.mod, a), PtrT):
                return s.slot_type(a, IntT(64)) is not None
        return False

    def _ptrlike(s):
        P = set(s.int_pointee)

        def is64(t):
            return isinstance(t, IntT) and t.bits == 64

        def add(v):
            if isinstance(v, Reg) and v.name not in P and is64(s.f.regtypes.get(v.name, v.ty)):
                P.add(v.name); return True
            return False
        changed = True
        it = 0
        while changed and it < 50:
            changed = False; it += 1
            for b in s.f.blocks:
                for ins in b.instrs:
                    op = ins.op
                    if op == 'ptrtoint' and ins.res is not None and is64(ins.ty) and ins.res not in P:
                        P.add(ins.res); changed = True
                    elif op == 'inttoptr':
                        changed |= add(ins.args[0])
                    elif op == 'load' and is64(ins.ty) and ins.res not in P and s.slot_type(ins.args[0], ins.ty) is not None:
                        P.add(ins.res); changed = True
                    elif op == 'store' and is64(ins.args[0].ty) and s.slot_type(ins.args[1], ins.args[0].ty) is not None:
                        changed |= add(ins.args[0])
                    elif op == 'call' and isinstance(ins.x['callee'], InlineAsm):
                        if s._asm_mem_is_ptr_slot(ins):
                            if ins.res is not None and is64(ins.ty) and ins.res not in P:
                                P.add(ins.res); changed = True
                            for a in ins.args:
                                if is64(a.ty):
                                    changed |= add(a)
                    elif op in ('atomicrmw', 'cmpxchg'):
                        vt = ins.args[1].ty
                        if is64(vt) and s.slot_type(ins.args[0], vt) is not None:
                            for a in ins.args[1:]:
                                changed |= add(a)
                            if op == 'atomicrmw' and ins.res not in P:
                                P.add(ins.res); changed = True
                    elif op == 'extractvalue' and ins.res not in P and is64(ins.ty) and isinstance(ins.args[0], Reg):
                        d = s.defs.get(ins.args[0].name)
                        if d is not None and d.op == 'cmpxchg' and ins.x['idx'] == [0] and \
                                s.slot_type(d.args[0], d.args[1].ty) is not None:
                            P.add(ins.res); changed = True
                    elif op in ('phi', 'select', 'and', 'or', 'xor', 'add', 'sub', 'freeze') and is64(ins.ty):
                        srcs = [v for v, _ in ins.x['incoming']] if op == 'phi' else \
                            (ins.args[1:] if op == 'select' else ins.args)
                        if ins.res in P:
                            for v in srcs:
                                changed |= add(v)
                        elif any(isinstance(v, Reg) and v.name in P for v in srcs) or \
                                any(isinstance(v, CExpr) and v.op == 'ptrtoint' for v in srcs):
                            P.add(ins.res); changed = True
        s.ptrlike = P

    # -- registers whose live range crosses a potential scheduling point must survive a return from the thread function
    #    (statics); all others can be plain locals, which keeps them out of CBMC's state merges at every yield/return
    def _liveness(s):
        f = s.f

        def regs_of(v, acc):
            def vis(x):
                if isinstance(x, Reg):
                    acc.add(x.name)
            walk_value(v, vis)
        blocks = {b.label: b for b in f.blocks}
        succ = {}
        for b in f.blocks:
            succ[b.label] = successors(b.instrs[-1]) if b.instrs else []
        # phi uses per edge
        edge_use = {}
        for b in f.blocks:
            for ins in b.instrs:
                if ins.op != 'phi':
                    break
                for v, l in ins.x['incoming']:
                    acc = edge_use.setdefault((l, b.label), set())
                    regs_of(v, acc)
        phidefs = {b.label: {ins.res for ins in b.instrs if ins.op == 'phi'} for b in f.blocks}

        def uses_defs(ins):
            u = set()
            if ins.op == 'phi':
                return u, {ins.res}
            for cont, k in instr_values(ins):
                regs_of(cont[k], u)
            d = {ins.res} if ins.res is not None else set()
            return u, d
        live_in = {b.label: set() for b in f.blocks}
        live_out = {b.label: set() for b in f.blocks}
        changed = True
        while changed:
            changed = False
            for b in reversed(f.blocks):
                lo = set()
                for t in succ[b.label]:
                    lo |= (live_in[t] - phidefs[t])
                    lo |= edge_use.get((b.label, t), set())
                li = set(lo)
                for ins in reversed(b.instrs):
                    if ins.op == 'phi':
                        continue
                    u, d = uses_defs(ins)
                    li -= d
                    li |= u
                li |= phidefs[b.label]          # phi results are defined on entry (by the edge copies)
                if lo != live_out[b.label] or li != live_in[b.label]:
                    live_out[b.label] = lo; live_in[b.label] = li; changed = True
        persistent = set()
        YIELDY = ('load', 'store', 'call', 'fence', 'atomicrmw', 'cmpxchg')
        for b in f.blocks:
            live = set(live_out[b.label])
            for ins in reversed(b.instrs):
                if ins.op == 'phi':
                    continue
                u, d = uses_defs(ins)
                after = set(live)
                live = (live - d) | u
                yieldy = ins.op in YIELDY
                if ins.op == 'load' and s.is_local_ptr(ins.args[0]):
                    yieldy = False
                if ins.op == 'store' and s.is_local_ptr(ins.args[1]):
                    yieldy = False
                if ins.op == 'call':
                    cal = ins.x['callee']
                    while isinstance(cal, CExpr) and cal.op == 'bitcast':
                        cal = cal.args[0]
                    if isinstance(cal, GlobalRef) and (cal.name.startswith('llvm.lifetime') or cal.name.startswith('llvm.dbg') or
                                                       cal.name.startswith('llvm.assume') or cal.name.startswith('llvm.expect') or
                                                       cal.name in ('rt_assert', 'rt_cover', 'rt_assume', 'rt_stamp', 'rt_self', 'rt_gset',
                                                                    'rt_gget', 'rt_bset', 'rt_bget', 'rt_nondet_u64', 'rt_nondet_u32',
                                                                    'rt_nondet_bool', 'rt_nondet_u8', 'abort', '__assert_fail', 'strerror',
                                                                    '__errno_location', 'perror', 'fprintf', 'pthread_self')):
                        yieldy = False
                    if isinstance(cal, InlineAsm) and cal.tmpl.strip() in ('', 'sfence', 'lfence'):
                        yieldy = False
                if yieldy:
                    # a yield may happen before the instruction (live-in) or, for blocking primitives and spin hints that are
                    # re-entered / resumed right after, between the instruction and its successors (live-out incl. its result)
                    persistent |= live
                    persistent |= after
        s.persistent = persistent
