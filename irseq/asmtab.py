"""x86 inline-asm semantics table (DESIGN 2.2).  Trusted base.

Each (template, constraints) pair is decoded into operands following LLVM's rules
(outputs first, then inputs; indirect '*' operands consume a pointer argument) and
the mnemonic is given its architectural meaning.  Width comes from the mnemonic
suffix, never from the C type.  Unknown template => Unsupported (INCONCLUSIVE).
"""
import re
from ir import *

WIDTH = {'b': 8, 'w': 16, 'l': 32, 'q': 64}
RMW = {'add': '+', 'sub': '-', 'and': '&', 'or': '|', 'xor': '^'}


def decode_operands(asm, args):
    cons = [c for c in asm.cons.split(',') if c and not c.startswith('~')]
    ops = []
    ai = 0
    # first pass: outputs; indirect outputs consume args in order, then inputs
    for c in cons:
        if c.startswith('=') or c.startswith('+'):
            ind = '*' in c
            ops.append({'out': True, 'ind': ind, 'cons': c, 'arg': None, 'tied': None})
        else:
            ind = '*' in c
            tied = int(c) if c.isdigit() else None
            ops.append({'out': False, 'ind': ind, 'cons': c, 'arg': None, 'tied': tied})
    for o in ops:
        if o['out'] and o['ind']:
            o['arg'] = args[ai]; ai += 1
    for o in ops:
        if not o['out']:
            o['arg'] = args[ai]; ai += 1
    if ai != len(args):
        raise Unsupported('asm operand count mismatch %r' % (asm,))
    return ops


def opnums(text):
    return [int(m) for m in re.findall(r'\$\{?(\d+)', text)]


def emit_asm(inst, ins, asm):
    n0 = inst.nvis
    _emit_asm(inst, ins, asm)
    t = asm.tmpl.strip()
    if inst.resumable and t not in ('', 'sfence', 'lfence') and not t.startswith('bsr') and inst.nvis == n0:
        # fail closed: an instruction that touches shared memory must be a scheduling point
        import re as _re
        m = _re.match(r'^(lock; ?)?(xchg|cmpxchg|xadd|add|sub|and|or|xor|inc|dec|neg|not)([bwlq]) ', t)
        if m:
            ops = decode_operands(asm, ins.args)
            for o in ops:
                if o['ind'] and inst.is_visible_ptr(o['arg']):
                    raise Unsupported('asm %r on shared memory was emitted without a scheduling point' % t)


def _emit_asm(inst, ins, asm):
    em = inst.em; T = em.T; body = inst.body
    t = asm.tmpl.strip()
    slot = inst.slot
    if t == '':
        return
    if t in ('mfence',):
        inst.yield_point('mfence')
        body.append('RT_FENCE(%d);' % slot)
        return
    if t in ('sfence', 'lfence'):
        return   # no effect on x86-TSO for ordinary accesses; compiler barrier only
    if t in ('rep; nop', 'pause'):
        if inst.resumable:
            inst.spin_yield()
        else:
            body.append('RT_SPIN_PLAIN();')
        return
    if t == 'rdtsc':
        raise Unsupported('rdtsc')
    m = re.match(r'^bsr([lq]) \$1,\$0\n\tjnz 1f\n\tmov[lq] \$\$-1,\$0\n\t1:\n\t$', asm.tmpl)
    if m:
        w = WIDTH[m.group(1)]
        ops = decode_operands(asm, ins.args)
        x = inst.v(ops[1]['arg'])
        ct = T.ct(ins.ty)
        body.append(inst.assign(ins.res, '(%s)RT_BSR%d(%s)' % (ct, w, x)))
        return
    m = re.match(r'^(lock; ?)?(xchg|cmpxchg|xadd|add|sub|and|or|xor|inc|dec|neg|not)([bwlq]) (.*)$', t)
    if not m:
        raise Unsupported('asm template %r' % asm.tmpl)
    lock, mn, suf, rest = m.groups()
    w = WIDTH[suf]
    ity = IntT(w)
    ict = T.ct(ity)
    ops = decode_operands(asm, ins.args)
    nums = opnums(rest)
    locked = bool(lock) or mn == 'xchg'

    def isrc(n):
        """C expression for the value of operand n (register / immediate input, or tied input of an output)"""
        o = ops[n]
        if o['out']:
            for q in ops:
                if q['tied'] == n:
                    return '(%s)%s' % (ict, inst.v(q['arg']))
            raise Unsupported('asm output operand %d read without tied input' % n)
        return '(%s)%s' % (ict, inst.v(o['arg']))

    def psrc(n):
        """pointer-preserving source operand (for stores into pointer slots)"""
        o = ops[n]
        if o['out']:
            for q in ops:
                if q['tied'] == n:
                    return inst.pv(q['arg'])
            raise Unsupported('asm output operand %d read without tied input' % n)
        return inst.pv(o['arg'])

    def setres_slot():
        """result := previous content of the memory operand"""
        if st is not None and w == 64 and inst.isp(res):
            return inst.assign_p(res, lv)
        return inst.assign(res, '(%s)(%s)%s' % (rct, ict, lv))

    def memop(n):
        o = ops[n]
        if not o['ind']:
            raise Unsupported('asm operand %d expected memory' % n)
        p = o['arg']
        st = inst.info.slot_type(p, ity)
        pe = inst.v(p)
        if st is not None:
            return '(*(%s *)%s)' % (T.ct(st), pe), st, p
        return '(*(%s *)%s)' % (ict, pe), None, p

    # which operand is memory
    mems = [n for n in nums if ops[n]['ind']]
    if len(mems) != 1:
        raise Unsupported('asm %r: expected one memory operand' % asm.tmpl)
    lv, st, p = memop(mems[0])
    vis = inst.is_visible_ptr(p)
    wcast = ('(%s)' % T.ct(st)) if st is not None else ''
    res = ins.res if ins.res is not None and not isinstance(ins.ty, VoidT) else None

    def setres(expr):
        return inst.assign(res, expr) if res else ''
    rct = T.ct(ins.ty) if res else None

    def begin(desc):
        if vis:
            inst.yield_point(desc)
            if inst.resumable and inst.tso_here():
                body.append('rt_sb_drain(%d);' % slot)

    if em.spec.get('asm_contract'):
        # C20: the contract the asm statement gives the COMPILER is part of the operation's meaning (this encoding takes the code as
        # clang compiled it and cannot bound what another compiler may do with a wrong contract, so it is checked where the
        # instruction is executed).
        if mn in ('xchg', 'cmpxchg', 'xadd') and locked and '~{memory}' not in asm.cons.split(','):
            # xchg / cmpxchg / add_return are documented full barriers: that includes the compiler
            body.append('RT_ASSERT(0, "%s%s: documented as a full memory barrier but the asm statement has no memory clobber (the compiler may move or cache memory accesses across it)");' % (mn, suf))
        mo = ops[mems[0]]
        if mo['out'] and not mo['cons'].startswith('+') and not any((not q['out']) and q['ind'] and q['arg'] is mo['arg'] or
                                                                    ((not q['out']) and q['ind'] and inst.v(q['arg']) == inst.v(mo['arg'])) for q in ops):
            # every instruction of this table reads its memory operand; an output-only ("=m") operand tells the compiler the old
            # content is dead, so it may discard the store that initialised the object
            body.append('RT_ASSERT(0, "%s%s reads its memory operand but the asm statement declares it write-only (=m): the compiler may discard the preceding store to the object");' % (mn, suf))
    if mn == 'xchg':
        regn = [n for n in nums if not ops[n]['ind']][0]
        begin('xchg%s' % suf)
        body.append('{ %s %s = %s%s; }' % (setres_slot(), lv, wcast, psrc(regn) if st is not None else isrc(regn)))
        return
    if mn == 'cmpxchg':
        srcn = nums[0]
        # accumulator: the output with {ax} constraint
        axn = [i for i, o in enumerate(ops) if o['out'] and 'ax' in o['cons']]
        if not axn:
            raise Unsupported('cmpxchg without ax output')
        if not res:
            raise Unsupported('cmpxchg without result')
        if not locked:
            # without the lock prefix the read and the conditional write are two separate memory accesses
            begin('cmpxchg%s (unlocked) load' % suf)
            body.append(setres_slot())
            begin('cmpxchg%s (unlocked) store' % suf)
            body.append('if ((%s)%s == %s) %s = %s%s;' % (ict, inst.reg(res), isrc(axn[0]), lv, wcast,
                                                        psrc(srcn) if st is not None else isrc(srcn)))
            return
        begin('lock cmpxchg%s' % suf)
        body.append('{ %s if ((%s)%s == %s) %s = %s%s; }' % (
            setres_slot(), ict, inst.reg(res), isrc(axn[0]), lv, wcast, psrc(srcn) if st is not None else isrc(srcn)))
        return
    if mn == 'xadd':
        regn = nums[0]
        if locked:
            begin('lock xadd%s' % suf)
            body.append('{ %s o_ = (%s)%s; %s = %s(%s)(o_ + %s); %s }' % (
                ict, ict, lv, lv, wcast, ict, isrc(regn), setres('(%s)o_' % rct)))
        else:
            tmp = inst.temp(ict)
            begin('xadd%s (unlocked) load' % suf)
            body.append('%s = (%s)%s;' % (tmp, ict, lv))
            begin('xadd%s (unlocked) store' % suf)
            body.append('%s = %s(%s)(%s + %s); %s' % (lv, wcast, ict, tmp, isrc(regn), setres('(%s)%s' % (rct, tmp))))
        return
    if mn in RMW or mn in ('inc', 'dec', 'neg', 'not'):
        if mn in RMW:
            srcn = nums[0]
            newx = lambda cur: '(%s)(%s %s %s)' % (ict, cur, RMW[mn], isrc(srcn))
        elif mn == 'inc':
            newx = lambda cur: '(%s)(%s + 1)' % (ict, cur)
        elif mn == 'dec':
            newx = lambda cur: '(%s)(%s - 1)' % (ict, cur)
        elif mn == 'neg':
            newx = lambda cur: '(%s)(0 - %s)' % (ict, cur)
        else:
            newx = lambda cur: '(%s)(~%s)' % (ict, cur)
        if locked:
            begin('lock %s%s' % (mn, suf))
            body.append('{ %s o_ = (%s)%s; %s = %s%s; }' % (ict, ict, lv, lv, wcast, newx('o_')))
        else:
            tmp = inst.temp(ict)
            begin('%s%s (unlocked) load' % (mn, suf))
            body.append('%s = (%s)%s;' % (tmp, ict, lv))
            begin('%s%s (unlocked) store' % (mn, suf))
            body.append('%s = %s%s;' % (lv, wcast, newx(tmp)))
        if res:
            raise Unsupported('asm %s with register output' % mn)
        return
    raise Unsupported('asm %r' % asm.tmpl)
