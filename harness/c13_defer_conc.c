/* C13 (c): defer_rcu concurrency: a queuing thread, a thread calling rcu_defer_barrier(), two readers.  Real mb-flavor TU;
 * synchronize_rcu = C01 contract stub that waits exactly for the (ghost) reader sections open at its call; the background reclaimer's
 * start/stop is stubbed here (its body is rcu_defer_barrier(), which thread B runs). */
#define _LGPL_SOURCE
#define RCU_MB
static void start_defer_thread(void) __attribute__((noinline));
static void stop_defer_thread(void) __attribute__((noinline));
void urcu_mb_synchronize_rcu(void) __attribute__((noinline));
#include "urcu.c"
#include "rt_api.h"
/* ghost: 40+r reader r open (r = 1, 2), 44+r: set when reader r's (single) section has ended; 50+i snapshot for callback i: bit r = reader r was open at defer_rcu(i) */
#define G_OPEN(r) (40 + (r))
#define G_ENDED(r) (44 + (r))
#define G_SNAP(i) (50 + (i))
#define G_RUN(i) (54 + (i))
void my_noop(void) { }
void my_sync(void) {
  int o1 = (int)rt_gget(G_OPEN(1)), o2 = (int)rt_gget(G_OPEN(2));
  if (o1) rt_wait_eq(G_ENDED(1), 1);
  if (o2) rt_wait_eq(G_ENDED(2), 1);
}
void cb_log(void (*fct)(void *), void *p) {
  uint64_t i = (uint64_t)p;
  rt_assert(i < 3 && (uint64_t)fct == 0x1000 + 16 * i, "callback invoked with the function and argument that were queued");
  rt_gset(G_RUN(i), rt_gget(G_RUN(i)) + 1);
  rt_assert(rt_gget(G_RUN(i)) == 1, "a deferred call ran twice");
  uint64_t s = rt_gget(G_SNAP(i));
  rt_assert(!((s & 2) && !rt_gget(G_ENDED(1))) && !((s & 4) && !rt_gget(G_ENDED(2))),
            "a deferred call ran while a read-side critical section that began before its defer_rcu() was still open");
  if (i > 0) rt_assert(rt_gget(G_RUN(i - 1)) == 1, "deferred calls of one thread run in queue order");
}
static inline void q(uint64_t i) {
  rt_gset(G_SNAP(i), (rt_gget(G_OPEN(1)) ? 2 : 0) | (rt_gget(G_OPEN(2)) ? 4 : 0));
  defer_rcu((void (*)(void *))(0x1000 + 16 * i), (void *)i);
}
void ta(void) { q(0); q(1); rt_cover(rt_gget(G_SNAP(1)) & 4, "second defer_rcu was called while reader 2 was inside its section"); }
void tb(void) { rcu_defer_barrier(); }
int X;
void r1(void) { rt_gset(G_OPEN(1), 1); (void)CMM_LOAD_SHARED(X); rt_gset(G_OPEN(1), 0); rt_gset(G_ENDED(1), 1); }
void r2(void) { rt_gset(G_OPEN(2), 1); (void)CMM_LOAD_SHARED(X); rt_gset(G_OPEN(2), 0); rt_gset(G_ENDED(2), 1); }
void pro(void) { rt_assert(rcu_defer_register_thread() == 0, "register"); }
void epi(void) {
  rcu_defer_unregister_thread();
  rt_assert(rt_gget(G_RUN(0)) == 1 && rt_gget(G_RUN(1)) == 1, "unregister returned only after every queued call had run exactly once");
}
