#define _LGPL_SOURCE
#include <urcu/wfcqueue.h>
struct cds_wfcq_head H; struct cds_wfcq_tail T;
struct cds_wfcq_node N[4];
#include "rt_api.h"
void prologue(void){ cds_wfcq_init(&H,&T); }
void thr_enq0(void){ cds_wfcq_node_init(&N[0]); cds_wfcq_enqueue(&H,&T,&N[0]); cds_wfcq_node_init(&N[2]); cds_wfcq_enqueue(&H,&T,&N[2]); }
void thr_enq1(void){ cds_wfcq_node_init(&N[1]); cds_wfcq_enqueue(&H,&T,&N[1]); }
struct cds_wfcq_node *got[2];
void thr_deq(void){ got[0] = __cds_wfcq_dequeue_blocking(&H,&T); got[1] = __cds_wfcq_dequeue_blocking(&H,&T); }
void epilogue(void){
  rt_assert(got[0] == 0 || got[0] != got[1], "no duplicate");
  rt_assert(got[0] != &N[2], "fifo1");
  rt_assert(!(got[1] == &N[2] && got[0] != &N[0]), "fifo2");
}
