/* C14 (concurrent): the polling API with the real mutex under interleaving: checks the atomicity premise of the sequential
 * obligation and the early-completion clause when start_poll races the worker callback.
 * T1: takes a handle (starts the worker).  T2: the call_rcu helper (runs the queued callback once its grace period elapsed).
 * T3: a reader that opens a (ghost) read-side section, takes a handle inside it and polls it inside the section: must be false. */
#define _LGPL_SOURCE
#define RCU_MB
struct rcu_head;
void urcu_mb_call_rcu(struct rcu_head *head, void (*func)(struct rcu_head *head)) __attribute__((noinline));
#include "urcu.c"
#include "rt_api.h"
/* ghost cells */
#define G_OPEN 40      /* T3's section open */
#define G_PEND 41      /* a callback is queued */
#define G_PSNAP 42     /* section open when it was queued */
#define G_CANRUN 43    /* the queued callback's grace period has elapsed */
struct rcu_head *pend_head; void (*pend_fn)(struct rcu_head *);
void my_call_rcu(struct rcu_head *head, void (*func)(struct rcu_head *)) {
  rt_assert(!rt_gget(G_PEND), "worker callback queued twice");
  pend_head = head; pend_fn = func;
  rt_gset(G_PSNAP, rt_gget(G_OPEN)); rt_gset(G_CANRUN, !rt_gget(G_OPEN)); rt_gset(G_PEND, 1);
}
void t1(void) { struct urcu_gp_poll_state h = start_poll_synchronize_rcu(); (void)poll_state_synchronize_rcu(h); }
void helper(void) {
  for (int k = 0; k < 2; k++) {
    rt_wait_eq(G_CANRUN, 1);
    rt_gset(G_CANRUN, 0); rt_gset(G_PEND, 0);
    pend_fn(pend_head);
    rt_cover(k == 1, "worker callback ran twice");
  }
}
void t3(void) {
  rt_gset(G_OPEN, 1);
  struct urcu_gp_poll_state h = start_poll_synchronize_rcu();
  int r = poll_state_synchronize_rcu(h);
  rt_assert(!r, "poll returned true although the read-side critical section in progress at start_poll has not ended");
  rt_cover(rt_gget(G_PEND) == 0 && poll_worker_gp_state.active, "handle taken while the worker was between grace period and re-queue");
  rt_gset(G_OPEN, 0);
  if (rt_gget(G_PEND) && rt_gget(G_PSNAP)) rt_gset(G_CANRUN, 1);       /* the section the queued callback waits for has ended */
  rt_gset(G_PSNAP, 0);
}
void epilogue(void) { }
