/* C20(b) RMW atomicity and C20(c) full-barrier semantics of value-returning RMW ops. */
#define _LGPL_SOURCE
#include <stdint.h>
#include <urcu/uatomic.h>
#include <urcu/system.h>
#include "rt_api.h"

/* ---- (b) lost updates: three threads hammer one word with different RMW flavours */
unsigned long CNT;
uint8_t ADJ[8];
unsigned long TOK = 100, got1, got2;
int flagw;
void b_pro(void) { CNT = 0; }
void b_t1(void) { uatomic_inc(&CNT); uatomic_add(&CNT, 2); (void)uatomic_add_return(&ADJ[0], 3); got1 = uatomic_xchg(&TOK, 101); uatomic_or(&flagw, 1); }
void b_t2(void) { (void)uatomic_add_return(&CNT, 4); uatomic_sub(&CNT, 1); uatomic_inc(&ADJ[1]); got2 = uatomic_xchg(&TOK, 102); uatomic_or(&flagw, 2); }
void b_t3(void) { unsigned long o, n; do { o = uatomic_read(&CNT); n = o + 8; } while (uatomic_cmpxchg(&CNT, o, n) != o); uatomic_dec(&ADJ[0]); uatomic_and(&flagw, ~4); }
void b_epi(void) {
  rt_assert(CNT == 1 + 2 + 4 - 1 + 8, "no RMW update on the shared word was lost");
  rt_assert(ADJ[0] == 2 && ADJ[1] == 1 && ADJ[2] == 0, "RMW on adjacent bytes do not disturb each other");
  rt_assert(got1 + got2 + TOK == 100 + 101 + 102 && got1 != got2 && got1 != TOK, "xchg tokens are conserved");
  rt_assert(flagw == 3, "or/and updates not lost");
}
/* 2-thread variant */
void b2_epi(void) {
  rt_assert(CNT == 1 + 2 + 4 - 1, "no RMW update on the shared word was lost");
  rt_assert(ADJ[0] == 3 && ADJ[1] == 1, "RMW on adjacent bytes do not disturb each other");
  rt_assert(got1 + got2 + TOK == 100 + 101 + 102 && got1 != got2, "xchg tokens are conserved");
  rt_assert(flagw == 3, "or updates not lost");
}

/* ---- (c) store buffering litmus: the RMW is the store */
int x, y, r0, r1;
#ifndef SB_STORE
#define SB_STORE(p) (void)uatomic_xchg(p, 1)
#endif
void c_t0(void) { SB_STORE(&x); r0 = CMM_LOAD_SHARED(y); }
void c_t1(void) { SB_STORE(&y); r1 = CMM_LOAD_SHARED(x); }
void c_epi(void) {
#ifdef SB_EXPECT_RELAXED
  rt_cover(r0 == 0 && r1 == 0, "store buffering outcome r0=r1=0 reachable (no barrier)");
#else
  rt_assert(!(r0 == 0 && r1 == 0), "RMW acts as a full barrier: store-buffering outcome r0=r1=0 is forbidden");
#endif
  rt_cover(r0 == 1 && r1 == 0, "thread 1 ran first");
  rt_cover(r0 == 1 && r1 == 1, "both stores seen");
}

/* ---- (b') per-width atomicity: two threads apply each read-modify-write flavour to one cell of width W */
#ifdef WT
WT CELL[2]; WT gx1, gx2;
void w_t1(void) { WT o, n; do { o = uatomic_read(&CELL[0]); n = (WT)(o + 1); } while (uatomic_cmpxchg(&CELL[0], o, n) != o);
  (void)uatomic_add_return(&CELL[0], 2); uatomic_add(&CELL[0], 4); uatomic_inc(&CELL[0]); uatomic_or(&CELL[1], 1); }
void w_t2(void) { WT o, n; do { o = uatomic_read(&CELL[0]); n = (WT)(o + 8); } while (uatomic_cmpxchg(&CELL[0], o, n) != o);
  (void)uatomic_sub_return(&CELL[0], 1); uatomic_sub(&CELL[0], 1); uatomic_dec(&CELL[0]); uatomic_or(&CELL[1], 2); uatomic_and(&CELL[1], (WT)~4); }
void w_epi(void) {
  rt_assert(CELL[0] == (WT)(1 + 2 + 4 + 1 + 8 - 1 - 1 - 1), "no read-modify-write on the cell was lost (this width)");
  rt_assert((CELL[1] & 3) == 3, "or updates not lost (this width)");
}
#endif
