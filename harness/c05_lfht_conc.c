/* C05/C06/C07 (concurrent): cds_lfht operations of 2-3 threads on a small table.  Real src/rculfhash.c + order allocator (linked at IR level);
 * ghost flavor; typed pools; user nodes are separate objects.  The table is built by the real constructor in a sequential prologue. */
#define _LGPL_SOURCE
static inline int get_possible_cpus_array_len(void) __attribute__((noinline));
#include "rculfhash.c"
#include "rt_api.h"
#define MMT cds_lfht_mm_order
int my_ncpus(void) { return 1; }
/* ghost cells: 40+slot read-side nesting of that thread; 50.. results */
static void f_lock(void) { uint32_t t = rt_self(); rt_gset(40 + t, rt_gget(40 + t) + 1); }
static void f_unlock(void) { uint32_t t = rt_self(); rt_assert(rt_gget(40 + t) > 0, "read_unlock without read_lock"); rt_gset(40 + t, rt_gget(40 + t) - 1); }
static void f_sync(void) { uint32_t t = rt_self(); rt_assert(rt_gget(40 + t) == 0, "synchronize_rcu inside a read-side section");
  for (uint32_t k = 1; k < 4; k++) if (k != t && rt_gget(40 + k)) rt_wait_eq(40 + k, 0); }
static void f_noop(void) { }
static int f_ongoing(void) { return rt_gget(40 + rt_self()) > 0; }
const struct rcu_flavor_struct FLV = { .read_lock = f_lock, .read_unlock = f_unlock, .read_ongoing = f_ongoing, .read_quiescent_state = f_noop,
  .update_synchronize_rcu = f_sync, .thread_offline = f_noop, .thread_online = f_noop, .register_thread = f_noop, .unregister_thread = f_noop, .barrier = f_noop };
union htobj { struct cds_lfht ht; char pad[sizeof(struct cds_lfht) + 64 * sizeof(void *)]; } HTOBJ;
struct cds_lfht_node BT0[1], BT1[1], BT2[2]; int nbt;
static void *a_calloc(void *st, size_t n, size_t sz) {
  (void)st;
  if (sz == sizeof(struct cds_lfht_node)) { int k = nbt++; rt_assume(k < 3); return k == 0 ? (void *)BT0 : k == 1 ? (void *)BT1 : (void *)BT2; }
  return &HTOBJ;
}
static void *a_malloc(void *st, size_t sz) { return a_calloc(st, 1, sz); }
static void a_free(void *st, void *p) { (void)st; (void)p; }
const struct cds_lfht_alloc ALC = { .malloc = a_malloc, .calloc = a_calloc, .free = a_free };
struct unode { struct cds_lfht_node n; int key; } U0, U1, U2, U3;
static inline struct unode *UP(int i) { return i == 0 ? &U0 : i == 1 ? &U1 : i == 2 ? &U2 : &U3; }
static inline int uidx(struct cds_lfht_node *p) { return p == &U0.n ? 0 : p == &U1.n ? 1 : p == &U2.n ? 2 : p == &U3.n ? 3 : -1; }
static int match(struct cds_lfht_node *node, const void *key) { return caa_container_of(node, struct unode, n)->key == *(const int *)key; }
unsigned long HK[2];
struct cds_lfht *ht;
static inline void mk(unsigned long init, unsigned long mx) {
  HK[0] = rt_nondet_u64(); HK[1] = rt_nondet_u64();
#ifdef COLLIDE
  rt_assume(HK[0] == HK[1]);
#endif
  ht = _cds_lfht_new_with_alloc(init, 1, mx, 0, &MMT, &FLV, &ALC, NULL);
}
static inline void ins(int i, int key) { UP(i)->key = key; cds_lfht_add(ht, HK[key], &UP(i)->n); }
static inline int find(int key, int want) {        /* is node `want` among the nodes lookup+next_duplicate return for key?  also counts them */
  struct cds_lfht_iter it; int c = 0, hit = 0;
  cds_lfht_lookup(ht, HK[key], match, &key, &it);
  for (int k = 0; k < 4; k++) { struct cds_lfht_node *p = cds_lfht_iter_get_node(&it); if (!p) break; c++; if (uidx(p) == want) hit = 1; cds_lfht_next_duplicate(ht, match, &key, &it); }
  rt_gset(60, c);
  return hit;
}
static inline int walk(int want) {                 /* full traversal: how often is node `want` visited; total in ghost 61 */
  struct cds_lfht_iter it; int c = 0, hit = 0;
  cds_lfht_first(ht, &it);
  for (int k = 0; k < 5; k++) { struct cds_lfht_node *p = cds_lfht_iter_get_node(&it); if (!p) break; c++; if (uidx(p) == want) hit++; cds_lfht_next(ht, &it); }
  rt_gset(61, c);
  return hit;
}
#define RL() f_lock()
#define RU() f_unlock()

#if SCEN == 1     /* C05: a resident node is always found while neighbours are added and removed in the same bucket */
void prologue(void) { mk(1, 2); ins(0, 0); ins(2, KZ); }
void ta(void) { RL(); ins(1, KY); RU(); }
void tb(void) { RL(); int r = cds_lfht_del(ht, &U2.n); RU(); rt_assert(r == 0, "del of a stored node succeeds"); }
void tr(void) { RL(); int f = find(0, 0); RU(); rt_assert(f, "a node that stays in the table is found by every concurrent lookup");
  RL(); int w = walk(0); RU(); rt_assert(w == 1, "a node that stays in the table is visited exactly once by every concurrent traversal"); }
void epilogue(void) { RL(); rt_assert(walk(0) == 1 && walk(1) == 1 && walk(2) == 0, "final content = resident + added - removed"); rt_assert(rt_gget(61) == 2, "final node count"); RU(); }
#endif
#if SCEN == 2     /* C06: concurrent add_unique on an absent key; a reader never sees two nodes with that key */
void prologue(void) { mk(1, 2); ins(0, 0); U1.key = 1; U2.key = 1; }
void ta(void) { int k = 1; RL(); struct cds_lfht_node *r = cds_lfht_add_unique(ht, HK[1], match, &k, &U1.n); RU(); rt_gset(50, uidx(r) + 1); }
void tb(void) { int k = 1; RL(); struct cds_lfht_node *r = cds_lfht_add_unique(ht, HK[1], match, &k, &U2.n); RU(); rt_gset(51, uidx(r) + 1); }
void tr(void) { RL(); find(1, -1); RU(); rt_assert(rt_gget(60) <= 1, "lookup + next_duplicate never return two nodes for a key only inserted with add_unique");
  RL(); int a = walk(1), b = walk(2); RU(); rt_assert(a + b <= 1, "a traversal never sees two nodes with a uniquely-added key"); }
void epilogue(void) {
  int ra = (int)rt_gget(50) - 1, rb = (int)rt_gget(51) - 1;
  rt_assert((ra == 1) != (rb == 2), "exactly one of two concurrent add_unique calls inserts its node");
  rt_assert(ra == rb, "the other add_unique returns the node that was inserted");
  RL(); rt_assert(walk(ra) == 1 && rt_gget(61) == 2, "final content: resident + the single winner"); RU();
  rt_cover(ra == 2, "thread B won");
}
#endif
#if SCEN == 3     /* C06: add_replace on a continuously present key: never absent; each replaced node handed to exactly one caller */
void prologue(void) { mk(1, 2); ins(0, 0); U1.key = 0; U2.key = 0; }
void ta(void) { int k = 0; RL(); struct cds_lfht_node *r = cds_lfht_add_replace(ht, HK[0], match, &k, &U1.n); RU(); rt_gset(50, uidx(r) + 1); }
void tb(void) { int k = 0; RL(); struct cds_lfht_node *r = cds_lfht_add_replace(ht, HK[0], match, &k, &U2.n); RU(); rt_gset(51, uidx(r) + 1); }
void tr(void) { RL(); find(0, -1); RU(); rt_assert(rt_gget(60) == 1, "a key that is continuously present while being replaced is found by every lookup, exactly one node"); }
void epilogue(void) {
  int ra = (int)rt_gget(50) - 1, rb = (int)rt_gget(51) - 1;
  rt_assert(ra >= 0 && rb >= 0 && ra != rb, "each add_replace got a replaced node, and not the same one");
  rt_assert((ra == 0) != (rb == 0), "the original node is handed to exactly one caller");
  rt_assert((ra == 0 && rb == 1) || (rb == 0 && ra == 2), "the second replace returns the node the first one inserted");
  RL(); find(0, -1); rt_assert(rt_gget(60) == 1, "exactly one node with the key remains"); RU();
}
#endif
#if SCEN == 4     /* C07: two removers of the same node: exactly one owner; the owner may reclaim after a grace period */
void prologue(void) { mk(1, 2); ins(0, 0); ins(1, KY); }
void ta(void) { RL(); int r = cds_lfht_del(ht, &U0.n); RU(); rt_gset(50, r == 0 ? 1 : 2);
  if (r == 0) { f_sync(); U0.n.next = (struct cds_lfht_node *)0x5a5a0; U0.n.reverse_hash = 0x5a5a5a; rt_cover(1, "owner A reclaimed the node after a grace period"); } }
#if DELB == 0
void tb(void) { RL(); int r = cds_lfht_del(ht, &U0.n); RU(); rt_gset(51, r == 0 ? 1 : 2);
  if (r == 0) { f_sync(); U0.n.next = (struct cds_lfht_node *)0x5a5a0; U0.n.reverse_hash = 0x5a5a5a; } }
#else             /* remover B uses replace through a lookup iterator */
void tb(void) { int k = 0; struct cds_lfht_iter it; U2.key = 0; RL(); cds_lfht_lookup(ht, HK[0], match, &k, &it);
  int r = cds_lfht_iter_get_node(&it) == &U0.n ? cds_lfht_replace(ht, &it, HK[0], match, &k, &U2.n) : -2; RU(); rt_gset(51, r == 0 ? 1 : 2);
  if (r == 0) { f_sync(); U0.n.next = (struct cds_lfht_node *)0x5a5a0; U0.n.reverse_hash = 0x5a5a5a; } }
#endif
void tr(void) { RL(); int f = find(KY, 1); RU(); rt_assert(f, "the neighbour that stays is found while the other node is removed and reclaimed"); RL(); walk(1); RU(); }
void epilogue(void) {
  rt_assert((rt_gget(50) == 1) + (rt_gget(51) == 1) == 1, "exactly one of the competing del/replace calls on a node succeeds");
  RL(); rt_assert(walk(0) == 0, "the removed node is no longer reachable"); RU();
}
#endif
