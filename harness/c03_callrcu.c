/* C03/C04: call_rcu() / rcu_barrier() with the real helper thread (mb flavor TU).  synchronize_rcu is the C01 contract stub
 * (blocks until the ghost reader section is closed).  The helper is created by the library's own pthread_create call. */
#define _LGPL_SOURCE
#define RCU_MB
struct call_rcu_data;
static int set_thread_cpu_affinity(struct call_rcu_data *crdp) __attribute__((noinline));
void urcu_mb_synchronize_rcu(void) __attribute__((noinline));
struct call_rcu_data *urcu_mb_get_default_call_rcu_data(void) __attribute__((noinline));
#include "urcu.c"
#include "rt_api.h"
/* ghost cells */
#define G_OPEN 40                 /* reader section open */
#define G_SEQ 41                  /* reader section instance */
#define G_CNT(i) (44 + (i))       /* invocation count of callback i */
#define G_SNAP(i) (48 + (i))      /* reader section instance open at the matching call_rcu entry (0 none) */
#define G_QD(i) (52 + (i))        /* call_rcu(i) has returned */
#define NCB 3
struct rcu_head HD[NCB];
int my_affinity(struct call_rcu_data *c) { (void)c; return 0; }
void my_sync(void) { if (rt_gget(G_OPEN)) rt_wait_eq(G_OPEN, 0); rt_gset(56, rt_gget(56) + 1); }
static void cb(struct rcu_head *h) {
  int i = -1; for (int k = 0; k < NCB; k++) if (h == &HD[k]) i = k;
  rt_assert(i >= 0, "callback invoked with the rcu_head it was registered with");
  rt_gset(G_CNT(i), rt_gget(G_CNT(i)) + 1);
  rt_assert(rt_gget(G_CNT(i)) <= 1, "a call_rcu callback ran twice");
  uint64_t s = rt_gget(G_SNAP(i));
  rt_assert(!(s && rt_gget(G_OPEN) && rt_gget(G_SEQ) == s), "callback ran before a read-side critical section that began before call_rcu() had ended");
}
static inline void q(int i) { rt_gset(G_SNAP(i), rt_gget(G_OPEN) ? rt_gget(G_SEQ) : 0); call_rcu(&HD[i], cb); rt_gset(G_QD(i), 1); }
void reader(void) { rt_gset(G_SEQ, rt_gget(G_SEQ) + 1); rt_gset(G_OPEN, 1); rt_gset(G_OPEN, 0); }     /* two visible-free ghost steps: the section is open between them only if preempted */
void reader2(void) { rt_gset(G_SEQ, rt_gget(G_SEQ) + 1); rt_gset(G_OPEN, 1); (void)CMM_LOAD_SHARED(HD[0].func); rt_gset(G_OPEN, 0); }
/* sequential prologue: create the default helper (the library's own pthread_create) so that the enqueuers take the fast path */
void mkhelper(void) {     /* body of get_default_call_rcu_data() (which the thread instances see stubbed, see below) */
  call_rcu_lock(&call_rcu_mutex);
  if (default_call_rcu_data == NULL) call_rcu_data_init(&default_call_rcu_data, 0, -1);
  call_rcu_unlock(&call_rcu_mutex);
}
/* once the helper exists get_default_call_rcu_data() just returns it: the enqueuers use this fast path only (creation = prologue) */
struct call_rcu_data *my_get_default(void) { return default_call_rcu_data; }
#if SCEN == 1
void e1(void) { q(0); q(1); }
void e2(void) { q(2); }
#endif
#if SCEN == 2      /* rcu_barrier */
void e1(void) { q(0); }
void bar(void) {
  int before[NCB]; for (int i = 0; i < NCB; i++) before[i] = (int)rt_gget(G_QD(i));
  rcu_barrier();
  for (int i = 0; i < NCB; i++) if (before[i]) rt_assert(rt_gget(G_CNT(i)) == 1, "rcu_barrier returned before a callback queued before it had run");
  rt_cover(before[0], "a callback was queued before rcu_barrier was called");
}
#endif
void epilogue(void) {
  for (int i = 0; i < NCB; i++) if (rt_gget(G_QD(i))) rt_assert(rt_gget(G_CNT(i)) == 1, "every queued callback has been invoked exactly once after the helper ran to idle");
}
