/* C08/C09 (sequential): cds_lfht against a reference multimap; resize termination/contents; parameter normalisation.
 * The real src/rculfhash.c and one bucket allocator TU are included.  Flavor = ghost (read_lock/unlock no-ops, synchronize counts grace periods),
 * allocator = typed static pools (custom cds_lfht_alloc).  get_possible_cpus_array_len() is stubbed (sysfs parsing). */
#define _LGPL_SOURCE
static inline int get_possible_cpus_array_len(void) __attribute__((noinline));
#include "rculfhash.c"
#if MM == 0
#define MMT cds_lfht_mm_order
#elif MM == 1
#define MMT cds_lfht_mm_chunk
#endif
/* the bucket allocator TU (src/rculfhash-mm-*.c) is compiled separately and linked at IR level (extra_srcs) */
#include "rt_api.h"

int my_ncpus(void) { return 1; }
uint64_t gp; int rdepth;
static void f_lock(void) { rdepth++; }
static void f_unlock(void) { rt_assert(rdepth > 0, "read_unlock without read_lock"); rdepth--; }
static void f_sync(void) { rt_assert(rdepth == 0, "synchronize_rcu called inside a read-side critical section"); gp++; }
static void f_noop(void) { }
static int f_ongoing(void) { return rdepth > 0; }
static void f_atfork(struct urcu_atfork *a) { (void)a; }
const struct rcu_flavor_struct FLV = { .register_rculfhash_atfork = f_atfork, .unregister_rculfhash_atfork = f_atfork, .read_lock = f_lock, .read_unlock = f_unlock, .read_ongoing = f_ongoing, .read_quiescent_state = f_noop,
  .update_synchronize_rcu = f_sync, .thread_offline = f_noop, .thread_online = f_noop, .register_thread = f_noop, .unregister_thread = f_noop, .barrier = f_noop };

/* ---- typed pools behind the custom allocator; the log records what is live and when it was freed */
/* pool dimensions follow the table bound: order tables hold at most MAXB/2 nodes (chunk tables: MINB..), a table has log2(MAXB)+1 levels */
#ifndef NBT
#define NBT (MAXB >= 8 ? 6 : 5)
#endif
#ifndef BTSZ
#define BTSZ (MAXB >= 8 ? 4 : (MAXB >= 4 ? 2 : 1))
#endif
union htobj { struct cds_lfht ht; char pad[sizeof(struct cds_lfht) + 64 * sizeof(void *)]; } HTOBJ;
struct cds_lfht_node BT[NBT][BTSZ]; int bt_live[NBT]; unsigned long bt_n[NBT]; uint64_t bt_pub_gp[NBT];
struct ht_items_count ITEMS[4]; int ht_live, items_live; int nbt;
struct resize_work RWK0, RWK1, RWK2, RWK3; int rwk_live[4], nrwk;
static inline struct resize_work *RWP(int i) { return i == 0 ? &RWK0 : i == 1 ? &RWK1 : i == 2 ? &RWK2 : &RWK3; }
/* workqueue model (lazy resize, SCEN 4): queue_work defers the callback; the harness runs the pending work between operations
 * (run_work) - the worker thread of src/workqueue.c is a different unit (C03/C04 territory) */
static char WQOBJ;
struct urcu_work *PW[4]; void (*PF[4])(struct urcu_work *); int npw, nrun;
struct urcu_workqueue *my_wq_create(unsigned long flags, int cpu, void *priv, void (*a)(struct urcu_workqueue *, void *),
    void (*b)(struct urcu_workqueue *, void *), void (*c)(struct urcu_workqueue *, void *), void (*d)(struct urcu_workqueue *, void *),
    void (*e)(struct urcu_workqueue *, void *), void (*f)(struct urcu_workqueue *, void *), void (*g)(struct urcu_workqueue *, void *)) {
  (void)flags; (void)cpu; (void)priv; (void)a; (void)b; (void)c; (void)d; (void)e; (void)f; (void)g; return (struct urcu_workqueue *)&WQOBJ; }
void my_queue_work(struct urcu_workqueue *wq, struct urcu_work *work, void (*func)(struct urcu_work *)) {
  rt_assert(wq == (struct urcu_workqueue *)&WQOBJ && npw < 4, "work queued on the table's workqueue; pending buffer large enough");
  PW[npw] = work; PF[npw] = func; npw++; }
static inline void run_work(void) { for (int k = 0; k < 4; k++) if (k >= nrun && k < npw) { PF[k](PW[k]); nrun = k + 1; } }
void my_wq_flush(struct urcu_workqueue *wq) { (void)wq; run_work(); }
void my_wq_destroy(struct urcu_workqueue *wq) { (void)wq; }
static void *a_calloc(void *st, size_t n, size_t sz) {
  (void)st;
  if (sz == sizeof(struct resize_work) && n == 1) { rt_assert(nrwk < 4, "resize work pool"); int k = nrwk++; rwk_live[k] = 1; return RWP(k); }
  if (sz == sizeof(struct cds_lfht_node)) {
    rt_assume(nbt < NBT);                 /* pool capacity is a bound of the obligation, not a property */
    rt_assert(n <= BTSZ, "bucket table no larger than the table bound allows");
    int k = nbt++; bt_live[k] = 1; bt_n[k] = n;
    for (unsigned i = 0; i < BTSZ; i++) { BT[k][i].next = 0; BT[k][i].reverse_hash = 0; }
    return BT[k];
  }
  if (sz == sizeof(struct ht_items_count)) { rt_assert(n <= 4 && !items_live, "items pool"); items_live = 1; return ITEMS; }
  rt_assert(n == 1 && sz <= sizeof(HTOBJ) && !ht_live, "table object pool"); ht_live = 1; return &HTOBJ;
}
static void *a_malloc(void *st, size_t sz) { return a_calloc(st, 1, sz); }
static void a_free(void *st, void *p) {
  (void)st;
  if (!p) return;                      /* free(NULL) is legal */
  if (p == (void *)&HTOBJ) { rt_assert(ht_live, "table freed once"); ht_live = 0; return; }
  if (p == (void *)ITEMS) { rt_assert(items_live, "items freed once"); items_live = 0; return; }
  for (int k = 0; k < 4; k++) if (p == (void *)RWP(k)) { rt_assert(rwk_live[k], "resize work freed once"); rwk_live[k] = 0; return; }
  for (int k = 0; k < NBT; k++) if (p == (void *)BT[k]) {
    rt_assert(bt_live[k], "bucket table freed once"); bt_live[k] = 0;
    for (unsigned i = 0; i < BTSZ; i++) { BT[k][i].next = (struct cds_lfht_node *)0x5a5a0; BT[k][i].reverse_hash = 0x5a5a; }
    return;
  }
  rt_assert(0, "free of a pointer the allocator did not hand out");
}
const struct cds_lfht_alloc ALC = { .malloc = a_malloc, .calloc = a_calloc, .free = a_free };

/* ---- user nodes */
#define NN 3
struct unode { struct cds_lfht_node n; int key; } U0, U1, U2;
static inline struct unode *UP(int i) { return i == 0 ? &U0 : i == 1 ? &U1 : &U2; }
static inline int uidx(struct cds_lfht_node *p) { for (int i = 0; i < NN; i++) if (p == &UP(i)->n) return i; return -1; }
static int match(struct cds_lfht_node *node, const void *key) { return caa_container_of(node, struct unode, n)->key == *(const int *)key; }
unsigned long HK[2];            /* hash of key 0 / key 1: symbolic 64-bit patterns */
int present[NN];
struct cds_lfht *ht;

static inline int model_count(int key) { int c = 0; for (int i = 0; i < NN; i++) if (present[i] && UP(i)->key == key) c++; return c; }
static inline void check_lookup(int key) {
  struct cds_lfht_iter it; int seen[NN] = {0, 0, 0}; int c = 0;
  cds_lfht_lookup(ht, HK[key], match, &key, &it);
  for (int k = 0; k < NN + 1; k++) {
    struct cds_lfht_node *p = cds_lfht_iter_get_node(&it);
    if (!p) break;
    int i = uidx(p);
    rt_assert(i >= 0 && present[i] && UP(i)->key == key && !seen[i], "lookup/next_duplicate return stored nodes with the key, each once");
    seen[i] = 1; c++;
    rt_assert(k < NN, "duplicate walk terminates");
    cds_lfht_next_duplicate(ht, match, &key, &it);
  }
  rt_assert(c == model_count(key), "lookup + next_duplicate enumerate exactly the stored nodes with the key");
}
static inline void check_all(void) {
  struct cds_lfht_iter it; int seen[NN] = {0, 0, 0}; int c = 0, m = 0;
  for (int i = 0; i < NN; i++) m += present[i];
  cds_lfht_first(ht, &it);
  for (int k = 0; k < NN + 1; k++) {
    struct cds_lfht_node *p = cds_lfht_iter_get_node(&it);
    if (!p) break;
    int i = uidx(p);
    rt_assert(i >= 0 && present[i] && !seen[i], "full traversal visits stored nodes only, each once");
    seen[i] = 1; c++;
    rt_assert(k < NN, "traversal terminates");
    cds_lfht_next(ht, &it);
  }
  rt_assert(c == m, "full traversal visits every stored node");
  long before = 0, after = 0; unsigned long cnt = 0;
  cds_lfht_count_nodes(ht, &before, &cnt, &after);
  rt_assert(cnt == (unsigned long)m, "count_nodes equals the number of stored nodes");
  check_lookup(0); check_lookup(1);
  rt_assert(ht->size >= 1 && ht->size <= ht->max_nr_buckets && (ht->size & (ht->size - 1)) == 0, "bucket count stays a power of two within [1, max_nr_buckets]");
}
static inline void setup(unsigned long init, unsigned long mn, unsigned long mx, int flags) {
  HK[0] = rt_nondet_u64(); HK[1] = rt_nondet_u64();
  rt_cover(HK[0] == HK[1], "both keys hash to the same value"); rt_cover((HK[0] ^ HK[1]) == (1UL << 63), "hashes differ only in the top bit");
  for (int i = 0; i < NN; i++) { uint32_t k = rt_nondet_u32(); rt_assume(k < 2); UP(i)->key = (int)k; }
  ht = _cds_lfht_new_with_alloc(init, mn, mx, flags, &MMT, &FLV, &ALC, NULL);
  rt_assert(ht != 0, "table created for power-of-two parameters");
}
#ifndef OP1
#define OP1 0
#define OP2 0
#endif
static inline __attribute__((always_inline)) void one_op(const int op) {
  uint32_t i = rt_nondet_u32(); rt_assume(i < NN);
  int key = UP(i)->key; unsigned long h = HK[key];
  if (op == 0 && !present[i]) { cds_lfht_add(ht, h, &UP(i)->n); present[i] = 1;  }
  else if (op == 1 && !present[i]) {
    struct cds_lfht_node *r = cds_lfht_add_unique(ht, h, match, &key, &UP(i)->n);
    if (model_count(key) == 0) { rt_assert(r == &UP(i)->n, "add_unique inserts when the key is absent"); present[i] = 1; }
    else { int j = uidx(r); rt_assert(j >= 0 && j != (int)i && present[j] && UP(j)->key == key, "add_unique returns an existing node with the key"); }
  } else if (op == 2 && !present[i]) {
    struct cds_lfht_node *r = cds_lfht_add_replace(ht, h, match, &key, &UP(i)->n);
    if (model_count(key) == 0) rt_assert(r == 0, "add_replace adds when the key is absent");
    else { int j = uidx(r); rt_assert(j >= 0 && present[j] && UP(j)->key == key, "add_replace returns the replaced node"); present[j] = 0;  }
    present[i] = 1;
  } else if (op == 3) {
    int r = cds_lfht_del(ht, &UP(i)->n);
    if (present[i]) { rt_assert(r == 0, "del of a stored node succeeds"); present[i] = 0; }
    else rt_assert(r < 0 || 1, "del of a node that is not stored"); /* deleting a never-added node is outside the API contract */
  } else if (op == 4) {
    uint32_t n = rt_nondet_u32(); rt_assume(n == 1 || n == 2 || n == 4 || n == 8);
    cds_lfht_resize(ht, n);
  }
}
#if SCEN == 1      /* C08(a): operation sequence vs reference multimap */
void seq(void) {
  setup(INIT, MINB, MAXB, FLAGS);
  /* the operation kinds are fixed per obligation (OP1..OP3, enumerated by the driver); nodes, keys and hashes are symbolic */
  one_op(OP1); one_op(OP2);
#ifdef OP3
  one_op(OP3);
#endif
  check_all();
  for (int i = 0; i < NN; i++) if (present[i]) { int nonempty = cds_lfht_destroy(ht, 0); rt_assert(nonempty != 0, "destroy refuses a non-empty table"); break; }
  for (int i = 0; i < NN; i++) if (present[i]) { rt_assert(cds_lfht_del(ht, &UP(i)->n) == 0, "final del"); present[i] = 0; }
  rt_assert(cds_lfht_destroy(ht, 0) == 0, "destroy succeeds on an empty table");
  rt_assert(!ht_live && !items_live, "destroy released the table object");
  for (int k = 0; k < NBT; k++) rt_assert(!bt_live[k], "destroy released every bucket table");
}
#endif
#if SCEN == 2      /* C09(a): cds_lfht_resize returns for every requested size, keeps the contents and the bounds */
void seq(void) {
  setup(INIT, MINB, MAXB, 0);
  cds_lfht_add(ht, HK[UP(0)->key], &UP(0)->n); present[0] = 1;
  cds_lfht_add(ht, HK[UP(1)->key], &UP(1)->n); present[1] = 1;
#ifdef REQ_N
  unsigned long n = REQ_N;                 /* requested size fixed by the obligation; contents, keys and hashes stay symbolic */
#else
  unsigned long n = rt_nondet_u64();
#endif
#ifdef EXCLUDE_NON_POW2
  rt_assume(n == 0 || (n & (n - 1)) == 0 || n > MAXB);
#endif
#ifndef REQ_N
  rt_cover(n == 3, "non power of two request"); rt_cover(n == ~0UL, "ULONG_MAX request"); rt_cover(n == 0, "zero request");
#endif
  cds_lfht_resize(ht, n);
  check_all();
  unsigned long want = n < 1 ? 1 : n > MAXB ? MAXB : n;
  rt_assert(ht->size >= want && ht->size < 2 * want + (want == 0), "resize reaches the requested size (rounded to a power of two, clamped to [1, max])");
#ifndef ONE_RESIZE
  unsigned long n2 = rt_nondet_u64();
  cds_lfht_resize(ht, n2);
  check_all();
#endif
}
#endif
#if SCEN == 4      /* C09(b): lazy resize driven by the node counter and by chain length (AUTO_RESIZE | ACCOUNTING) */
#ifndef NADD
#define NADD NN
#endif
#define BOUNDS() rt_assert(ht->resize_target >= 1 && ht->resize_target <= ht->max_nr_buckets && ht->size >= 1 && ht->size <= ht->max_nr_buckets, "lazy resize: target and size stay within [1, max_nr_buckets]")
void seq(void) {
  setup(INIT, MINB, MAXB, CDS_LFHT_AUTO_RESIZE | CDS_LFHT_ACCOUNTING);
  for (int i = 0; i < NADD; i++) {
    cds_lfht_add(ht, HK[UP(i)->key], &UP(i)->n); present[i] = 1;
    BOUNDS();
    rt_cover(npw > nrun, "an addition queued resize work");
    run_work();
    BOUNDS();
  }
  check_all();
  rt_cover(ht->size == MAXB, "table grew to max_nr_buckets"); rt_cover(ht->size > INIT, "lazy resize grew the table");
  for (int i = 0; i < NADD; i++) { rt_assert(cds_lfht_del(ht, &UP(i)->n) == 0, "del of a stored node succeeds"); present[i] = 0; BOUNDS(); run_work(); BOUNDS(); }
  check_all();
  rt_assert(cds_lfht_destroy(ht, 0) == 0, "destroy of an empty auto-resize table is accepted (deferred to the workqueue)");
  run_work();
  rt_assert(!ht_live && !items_live, "deferred destroy released the table object and the split counters");
  for (int k = 0; k < NBT; k++) rt_assert(!bt_live[k], "deferred destroy released every bucket table");
  for (int k = 0; k < 4; k++) rt_assert(!rwk_live[k], "every resize work item was freed by its callback");
}
#endif
#if SCEN == 3      /* C08(b): parameter normalisation of cds_lfht_new for arbitrary arguments */
void seq(void) {
  unsigned long init = rt_nondet_u64(), mn = rt_nondet_u64(), mx = rt_nondet_u64();
  rt_assume(mx != 0 && mx <= PMAX && mn <= PMAX && init <= 2 * PMAX);   /* mx == 0 ("unbounded", order allocator only) is outside this obligation */          /* pool capacity; larger values only change allocation sizes */
  struct cds_lfht *h = _cds_lfht_new_with_alloc(init, mn, mx, 0, &MMT, &FLV, &ALC, NULL);
  int pow2 = init && !(init & (init - 1)) && mn && !(mn & (mn - 1)) && mx && !(mx & (mx - 1));
  if (!pow2) rt_assert(h == 0, "cds_lfht_new rejects sizes that are not powers of two");
  else {
    rt_assert(h != 0, "cds_lfht_new accepts power-of-two sizes");
    rt_assert(h->min_nr_alloc_buckets <= h->max_nr_buckets && h->size >= 1 && h->size <= h->max_nr_buckets && (h->size & (h->size - 1)) == 0,
              "normalised parameters: 1 <= size <= max, min <= max, powers of two");
    rt_cover(mx < init, "max < init"); rt_cover(mn > init, "min > init");
    rt_assert(cds_lfht_destroy(h, 0) == 0, "fresh table can be destroyed");
  }
}
#endif
