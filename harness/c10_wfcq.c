/* C10: cds_wfcq FIFO linearizability; scenarios selected with -DSCEN=n, dequeue flavour with -DDEQ=n */
#define _LGPL_SOURCE
#include <urcu/wfcqueue.h>
#define H_NN 4
#define H_ND 8
#include "hist.h"

struct cds_wfcq_head H; struct cds_wfcq_tail T;
struct cds_wfcq_head H2; struct cds_wfcq_tail T2;      /* splice destination */
struct cds_wfcq_node N[H_NN];
#ifndef DEQ
#define DEQ 0
#endif
static inline int idx(struct cds_wfcq_node *n) {
  if (n == 0) return H_NONE;
  if (n == CDS_WFCQ_WOULDBLOCK) return H_WB;
  for (int i = 0; i < H_NN; i++) if (n == &N[i]) return i;
  rt_assert(0, "dequeue returned a pointer that is not a queued node"); return H_NONE;
}
static inline void enq(struct cds_wfcq_head *h, struct cds_wfcq_tail *t, int i) {
  h_ins_call(i); cds_wfcq_node_init(&N[i]);
  int r = cds_wfcq_enqueue(h, t, &N[i]);
  h_ins_ret(i, r);
}
static inline int deq_kind(struct cds_wfcq_head *h, struct cds_wfcq_tail *t, int kind, int j) {
  uint32_t c = h_rem_call(); struct cds_wfcq_node *n; int st = 0;
  switch (kind) {
  case 0: n = __cds_wfcq_dequeue_blocking(h, t); break;
  case 1: n = __cds_wfcq_dequeue_nonblocking(h, t); break;
  case 2: n = __cds_wfcq_dequeue_with_state_blocking(h, t, &st); break;
  case 3: n = __cds_wfcq_dequeue_with_state_nonblocking(h, t, &st); break;
  default: n = cds_wfcq_dequeue_blocking(h, t); break;        /* mutex-protected wrapper */
  }
  int v = idx(n);
  h_rem_ret(j, c, v);
  if ((kind == 2 || kind == 3) && v >= 0) rt_gset(HG_USER + 8 + j, (st & CDS_WFCQ_STATE_LAST) ? 1 : 2);
  return v;
}
static inline void drain(struct cds_wfcq_head *h, struct cds_wfcq_tail *t) {
  for (int k = 0; k < H_NN + 1; k++) { int v = deq_kind(h, t, 0, 3 + k); if (v == H_NONE) return; }
  rt_assert(0, "queue drains within the number of nodes ever enqueued");
}
static inline void all_checks(void) {
  h_check_basic(); h_check_conservation(); h_check_fifo(); h_check_empty_answers(); h_check_wouldblock();
  /* STATE_LAST: the queue was empty right after that dequeue => no other node definitely queued during the whole call */
#if DEQ == 2 || DEQ == 3
  for (int j = 0; j < H_ND; j++) {
    uint64_t fl = rt_gget(HG_USER + 8 + j); int v = h_rval(j);
    if (!fl) continue;
    rt_cover(fl == 1, "dequeue reported STATE_LAST");
    rt_cover(fl == 2, "dequeue without STATE_LAST");
    if (fl == 1) {
      for (int a = 0; a < H_NN; a++) if (a != v) rt_assert(!h_def_present(a, h_rcall(j), h_rret(j)), "STATE_LAST only when the dequeued node was the last one");
    } else {
      /* not LAST: some node c was queued behind v when v was dequeued */
      int behind = 0;
      for (int c = 0; c < H_NN; c++)
        if (c != v && h_istarted(c) && h_icall(c) < h_rret(j) && h_icall(v) < h_iret(c) && (!h_removed(c) || h_vret(c) > h_rcall(j))) behind = 1;
      rt_assert(behind, "a dequeue that does not report STATE_LAST left another node in the queue");
    }
  }
#endif
  /* enqueue's "was non-empty" result */
  for (int b = 0; b < H_NN; b++) {
    if (!h_idone(b)) continue;
    int may = 0, def = 0;
    for (int a = 0; a < H_NN; a++) if (a != b) { may |= h_may_present(a, h_icall(b), h_iret(b)); def |= h_def_present(a, h_icall(b), h_iret(b)); }
    if (h_iflag(b)) rt_assert(may, "enqueue reports non-empty only if another node can be in the queue");
    else rt_assert(!def, "enqueue reports empty only if no other node is definitely in the queue");
  }
}
void prologue(void) { cds_wfcq_init(&H, &T); cds_wfcq_init(&H2, &T2); }

#if SCEN == 1 || SCEN == 4     /* 2 producers (one enqueues twice), 1 or 2 consumers, then drain */
void p1(void) { enq(&H, &T, 0); enq(&H, &T, 2); }
void p2(void) { enq(&H, &T, 1); }
#if SCEN == 1
void c1(void) { int a = deq_kind(&H, &T, DEQ, 0); int b = deq_kind(&H, &T, DEQ, 1);
  rt_cover(a >= 0 && b >= 0, "consumer dequeued two nodes concurrently with the producers");
  rt_cover(a == H_NONE, "consumer saw an empty queue"); }
#else
void c1(void) { deq_kind(&H, &T, 4, 0); }
void c2(void) { deq_kind(&H, &T, 4, 1); }
#endif
void epilogue(void) { drain(&H, &T); all_checks(); rt_assert(cds_wfcq_empty(&H, &T), "queue empty after drain"); }
#endif

#if SCEN == 2     /* splice: producers fill src while a splicer moves src to dst and dequeues from dst */
void p1(void) { enq(&H, &T, 0); enq(&H, &T, 2); }
void p2(void) { enq(&H, &T, 1); }
void c1(void) {
  uint32_t sc = rt_stamp();
  enum cds_wfcq_ret r = DEQ ? __cds_wfcq_splice_nonblocking(&H2, &T2, &H, &T) : __cds_wfcq_splice_blocking(&H2, &T2, &H, &T);
  uint32_t sr = rt_stamp();
  rt_gset(HG_USER, r + 1);
  if (r == CDS_WFCQ_RET_WOULDBLOCK) {       /* nothing was moved; legal only while an enqueue on the source is in flight */
    int inflight = 0;
    for (int a = 0; a < 3; a++) if (h_istarted(a) && h_icall(a) < sr && (!h_idone(a) || h_iret(a) > sc)) inflight = 1;
    rt_assert(inflight, "splice WOULDBLOCK only while an enqueue on the source is in flight");
    rt_cover(1, "nonblocking splice returned WOULDBLOCK");
    return;
  }
  rt_cover(r == CDS_WFCQ_RET_DEST_EMPTY, "splice moved nodes into an empty destination");
  rt_cover(r == CDS_WFCQ_RET_SRC_EMPTY, "splice found the source empty");
  rt_assert(r != CDS_WFCQ_RET_DEST_NON_EMPTY, "destination reported non-empty although nothing was ever put there before");
  if (!DEQ) rt_assert(r != CDS_WFCQ_RET_WOULDBLOCK, "blocking splice never returns WOULDBLOCK");
  deq_kind(&H2, &T2, 0, 0);
  r = __cds_wfcq_splice_blocking(&H2, &T2, &H, &T);
  rt_cover(r == CDS_WFCQ_RET_DEST_NON_EMPTY, "second splice appended behind existing nodes");
}
void epilogue(void) {
  __cds_wfcq_splice_blocking(&H2, &T2, &H, &T);
  rt_assert(cds_wfcq_empty(&H, &T), "source empty after splice");
  enq(&H, &T, 3);                       /* source is reusable */
  rt_assert(!h_iflag(3), "enqueue on the spliced-out source reports it was empty");
  rt_assert(__cds_wfcq_splice_blocking(&H2, &T2, &H, &T) != CDS_WFCQ_RET_SRC_EMPTY, "re-used source is not empty");
  drain(&H2, &T2);
  h_check_basic(); h_check_conservation(); h_check_fifo(); h_check_empty_answers();
  for (int a = 0; a < 3; a++) rt_assert(h_vcall(a) < h_vcall(3), "node enqueued on the reused source after everything else comes out last");
}
#endif

#if SCEN == 3     /* iteration (first/next, for_each) by the consumer while producers enqueue; nothing is dequeued by it */
void p1(void) { enq(&H, &T, 0); enq(&H, &T, 2); }
void p2(void) { enq(&H, &T, 1); }
void c1(void) {
  struct cds_wfcq_node *n; int k = 0; uint32_t c = rt_stamp(); int seen[H_NN] = {0, 0, 0, 0}; int prev = -1;
#if DEQ == 0
  __cds_wfcq_for_each_blocking(&H, &T, n) {
#else
  struct cds_wfcq_node *nx;
  __cds_wfcq_for_each_blocking_safe(&H, &T, n, nx) {
#endif
    int v = idx(n);
    rt_assert(v >= 0 && !seen[v], "iteration visits a queued node at most once");
    rt_assert(h_istarted(v), "iteration visits only nodes whose enqueue has started");
    if (prev >= 0) rt_assert(!(h_idone(v) && h_iret(v) < h_icall(prev)), "iteration order is queue order");
    seen[v] = 1; prev = v; k++;
    rt_assert(k <= H_NN, "iteration terminates");
  }
  for (int a = 0; a < H_NN; a++) if (h_idone(a) && h_iret(a) < c) rt_assert(seen[a], "iteration visits every node enqueued before it started");
  rt_cover(k == 3, "iteration saw all three nodes"); rt_cover(k == 1, "iteration saw one node");
}
void epilogue(void) { drain(&H, &T); all_checks(); }
#endif

#if SCEN == 5     /* empty() observer */
void p1(void) { enq(&H, &T, 0); enq(&H, &T, 2); }
void c1(void) { deq_kind(&H, &T, DEQ, 0); deq_kind(&H, &T, DEQ, 1); }
void c2(void) {
  for (int k = 0; k < 2; k++) {
    uint32_t c = rt_stamp(); int e = cds_wfcq_empty(&H, &T); uint32_t r = rt_stamp();
    rt_gset(HG_USER + 3 * k, c); rt_gset(HG_USER + 3 * k + 1, r); rt_gset(HG_USER + 3 * k + 2, e + 1);
  }
}
void epilogue(void) {
  drain(&H, &T); all_checks();
  for (int k = 0; k < 2; k++) {
    uint32_t c = rt_gget(HG_USER + 3 * k), r = rt_gget(HG_USER + 3 * k + 1); int e = (int)rt_gget(HG_USER + 3 * k + 2) - 1;
    int may = 0, def = 0;
    for (int a = 0; a < H_NN; a++) { may |= h_may_present(a, c, r); def |= h_def_present(a, c, r); }
    if (e) rt_assert(!def, "empty() true only if no node is definitely queued"); else rt_assert(may, "empty() false only if some node can be queued");
    rt_cover(e == 0, "empty() observed a non-empty queue");
  }
}
#endif

#if SCEN == 7     /* locked API: cds_wfcq_splice_blocking (takes the SOURCE queue's dequeue lock) vs a second consumer of that source */
void prologue2(void) { enq(&H, &T, 0); enq(&H, &T, 1); }
void p1(void) { enq(&H, &T, 2); }
void c1(void) {
  enum cds_wfcq_ret r = cds_wfcq_splice_blocking(&H2, &T2, &H, &T);
  rt_cover(r == CDS_WFCQ_RET_DEST_EMPTY, "locked splice moved nodes");
  rt_cover(r == CDS_WFCQ_RET_SRC_EMPTY, "locked splice found the source empty");
  deq_kind(&H2, &T2, 4, 0);
}
void c2(void) {
  /* documented: holding the dequeue lock of a queue excludes every other dequeue/splice-from/iteration on it, so what first() shows
   * is what the dequeue under the same lock returns */
  cds_wfcq_dequeue_lock(&H, &T);
  struct cds_wfcq_node *n = __cds_wfcq_first_blocking(&H, &T);
  int v = deq_kind(&H, &T, 0, 1);
  /* (an enqueue may still land between the two calls, so an empty answer of first() promises nothing) */
  if (n) rt_assert(idx(n) == v, "under the source's dequeue lock, the node first() showed is the one the following dequeue returns (nobody else consumes from that queue)");
  rt_cover(v >= 0, "second consumer dequeued from the source under its lock");
  rt_cover(v == H_NONE, "second consumer found the source already spliced out");
  cds_wfcq_dequeue_unlock(&H, &T);
  deq_kind(&H, &T, 4, 2);
}
void epilogue(void) {
  __cds_wfcq_splice_blocking(&H2, &T2, &H, &T);
  rt_assert(cds_wfcq_empty(&H, &T), "source empty after the final splice");
  drain(&H2, &T2);
  h_check_basic(); h_check_conservation();      /* two queues: order/emptiness clauses of the single-queue oracle do not apply across them */
}
#endif

#if SCEN == 6     /* progress: non-blocking splice / first / next alone */
void p1(void) { enq(&H, &T, 0); enq(&H, &T, 2); }
void p2(void) { enq(&H, &T, 1); }
void c1(void) {
  enum cds_wfcq_ret r = __cds_wfcq_splice_nonblocking(&H2, &T2, &H, &T);
  struct cds_wfcq_node *n = __cds_wfcq_first_nonblocking(&H, &T);
  if (n && n != CDS_WFCQ_WOULDBLOCK) n = __cds_wfcq_next_nonblocking(&H, &T, n);
  rt_gset(HG_USER, r + 1);
}
void epilogue(void) { }
#endif
