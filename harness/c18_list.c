/* C18: RCU list / hlist traversal concurrent with one updater.  -DHL=1 selects cds_hlist. */
#define _LGPL_SOURCE
#include <stdlib.h>
#include <urcu/rculist.h>
#include <urcu/rcuhlist.h>
#include "rt_api.h"
#define NI 5                      /* items: 0,1 initial; 2,3,4 created by update steps 0,1,2 */
#if HL
struct item { int payload; struct cds_hlist_node node; };
struct cds_hlist_head L;
#else
struct item { int payload; struct cds_list_head node; };
struct cds_list_head L;
#endif
struct item *P[NI];
/* ghost banks (index = item): 0 key (list position, never changes), 1 insert-start stamp, 2 removal-start stamp (0 = never),
 * 3 visit count; ghost cells: 50 reader-in-section, 51 reader start stamp, 52 reader end stamp, 53 last visited key+1, 54 #visited */
#define B_KEY 0
#define B_INS 1
#define B_DEL 2
#define B_VIS 3
#define B_INSD 4   /* insertion completed */
#define B_DELD 5   /* removal completed */
static inline struct item *mk(int i) { struct item *it = (struct item *)malloc(sizeof(struct item)); it->payload = 100 + i; P[i] = it; return it; }
static inline int member(int i) { return rt_bget(B_INS, i) != 0 && rt_bget(B_DEL, i) == 0; }
void prologue(void) {
#if HL
  CDS_INIT_HLIST_HEAD(&L);
  struct item *b = mk(1); cds_hlist_add_head_rcu(&b->node, &L); rt_bset(B_KEY, 1, 20); rt_bset(B_INS, 1, rt_stamp()); rt_bset(B_INSD, 1, rt_stamp());
  struct item *a = mk(0); cds_hlist_add_head_rcu(&a->node, &L); rt_bset(B_KEY, 0, 10); rt_bset(B_INS, 0, rt_stamp()); rt_bset(B_INSD, 0, rt_stamp());
#else
  CDS_INIT_LIST_HEAD(&L);
  struct item *a = mk(0); cds_list_add_tail_rcu(&a->node, &L); rt_bset(B_KEY, 0, 10); rt_bset(B_INS, 0, rt_stamp()); rt_bset(B_INSD, 0, rt_stamp());
  struct item *b = mk(1); cds_list_add_tail_rcu(&b->node, &L); rt_bset(B_KEY, 1, 20); rt_bset(B_INS, 1, rt_stamp()); rt_bset(B_INSD, 1, rt_stamp());
#endif
  rt_gset(60, 9); rt_gset(61, 21);     /* next head key (decreasing), next tail key (increasing) */
}
/* removed node: wait for a grace period (contract stub: no reader section open), then really free it */
static inline void retire(int k) { rt_wait_eq(50, 0); P[k]->payload = -1; free(P[k]); }
static inline void step(int s) {
  int n = 2 + s;                         /* item created by this step */
  uint32_t op = rt_nondet_u32(); rt_assume(op < 4);
  uint32_t k = rt_nondet_u32(); rt_assume(k < NI && member((int)k));      /* victim: a current member */
  if (op == 0) {                         /* add at head */
    struct item *it = mk(n); rt_bset(B_KEY, n, (uint32_t)rt_gget(60)); rt_gset(60, rt_gget(60) - 1); rt_bset(B_INS, n, rt_stamp());
#if HL
    cds_hlist_add_head_rcu(&it->node, &L);
#else
    cds_list_add_rcu(&it->node, &L);
#endif
    rt_bset(B_INSD, n, rt_stamp());
    rt_cover(1, "updater added at head");
  } else if (op == 1) {                  /* add at tail (hlist: head again) */
#if HL
    struct item *it = mk(n); rt_bset(B_KEY, n, (uint32_t)rt_gget(60)); rt_gset(60, rt_gget(60) - 1); rt_bset(B_INS, n, rt_stamp());
    cds_hlist_add_head_rcu(&it->node, &L);
#else
    struct item *it = mk(n); rt_bset(B_KEY, n, (uint32_t)rt_gget(61)); rt_gset(61, rt_gget(61) + 1); rt_bset(B_INS, n, rt_stamp());
    cds_list_add_tail_rcu(&it->node, &L);
#endif
    rt_bset(B_INSD, n, rt_stamp());
  } else if (op == 2) {                  /* delete k */
    rt_bset(B_DEL, k, rt_stamp());
#if HL
    cds_hlist_del_rcu(&P[k]->node);
#else
    cds_list_del_rcu(&P[k]->node);
#endif
    rt_bset(B_DELD, k, rt_stamp());
    retire((int)k);
    rt_cover(1, "updater deleted a node and freed it after the grace period");
  } else {                               /* replace k by n (hlist has no replace: delete + add head) */
#if HL
    rt_bset(B_DEL, k, rt_stamp()); cds_hlist_del_rcu(&P[k]->node); rt_bset(B_DELD, k, rt_stamp()); retire((int)k);
    struct item *it = mk(n); rt_bset(B_KEY, n, (uint32_t)rt_gget(60)); rt_gset(60, rt_gget(60) - 1); rt_bset(B_INS, n, rt_stamp());
    cds_hlist_add_head_rcu(&it->node, &L); rt_bset(B_INSD, n, rt_stamp());
#else
    struct item *it = mk(n); rt_bset(B_KEY, n, rt_bget(B_KEY, k)); rt_bset(B_INS, n, rt_stamp()); rt_bset(B_DEL, k, rt_stamp());
    cds_list_replace_rcu(&P[k]->node, &it->node);
    rt_bset(B_INSD, n, rt_stamp()); rt_bset(B_DELD, k, rt_stamp());
    retire((int)k);
    rt_cover(1, "updater replaced a node");
#endif
  }
}
void updater(void) { step(0); step(1);
#if NSTEP >= 3
  step(2);
#endif
}
static inline int item_of(struct item *it) { for (int i = 0; i < NI; i++) if (P[i] == it) return i; return -1; }
void reader(void) {
  struct item *it; int nv = 0;
  rt_gset(50, 1); rt_gset(51, rt_stamp());
#if HL
  cds_hlist_for_each_entry_rcu_2(it, &L, node) {
#else
  cds_list_for_each_entry_rcu(it, &L, node) {
#endif
    int pl = CMM_LOAD_SHARED(it->payload);          /* touches the node: freed memory would trip the deallocation check */
    rt_assert(pl >= 100 && pl < 100 + NI, "visited node has fully initialised contents");
    int i = pl - 100;
    rt_assert(rt_bget(B_VIS, i) == 0, "a node is visited at most once");
    rt_bset(B_VIS, i, 1);
    rt_assert(rt_gget(53) == 0 || rt_bget(B_KEY, i) + 1 > rt_gget(53), "nodes are visited in list order");
    rt_gset(53, rt_bget(B_KEY, i) + 1);
    nv++; rt_assert(nv <= NI, "traversal terminates within the number of nodes ever linked");
  }
  rt_gset(52, rt_stamp()); rt_gset(54, nv); rt_gset(50, 0);
}
void epilogue(void) {
  uint32_t rs = (uint32_t)rt_gget(51), re = (uint32_t)rt_gget(52);
  for (int i = 0; i < NI; i++) {
    uint32_t ins = rt_bget(B_INS, i), insd = rt_bget(B_INSD, i), del = rt_bget(B_DEL, i), deld = rt_bget(B_DELD, i);
    int resident = insd != 0 && insd < rs && (del == 0 || del > re);     /* insertion completed before, removal not started before the end */
    int ever = ins != 0 && ins < re && (deld == 0 || deld > rs);         /* may have been linked at some instant of the traversal */
    if (resident) rt_assert(rt_bget(B_VIS, i) == 1, "a node in the list for the whole traversal is visited exactly once");
    if (rt_bget(B_VIS, i)) rt_assert(ever, "only nodes that were in the list at some moment of the traversal are visited");
  }
  rt_cover(rt_gget(54) == 4, "reader visited four nodes"); rt_cover(rt_gget(54) == 1, "reader visited one node");
}
