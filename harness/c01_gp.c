/* C01/C02/C15(a): grace-period guarantee and completion for the mb / memb / qsbr / bp flavors.
 * The real flavor TU is included.  FLAVOR: 1 mb, 2 memb, 3 qsbr, 4 bp.  SCEN selects the thread programs. */
#define _LGPL_SOURCE
#if FLAVOR == 1
#define RCU_MB
#include "urcu.c"
#elif FLAVOR == 2
#define RCU_MEMBARRIER
#include "urcu.c"
#elif FLAVOR == 3
#include "urcu-qsbr.c"
#else
#include "urcu-bp.c"
#endif
#include <stdlib.h>
#include "rt_api.h"
#ifndef DYN
#define DYN 0
#endif

#if FLAVOR == 4
/* registry arena: the anonymous mapping behind expand_arena() is a typed, zero-filled static object (one chunk of INIT_READER_COUNT
 * readers, set through the URCU_VERIF hook); a second mapping (arena growth) is outside these obligations */
static struct { struct registry_chunk hdr; struct urcu_bp_reader rd[INIT_READER_COUNT]; } CHUNK0 __attribute__((aligned(128)));
static int chunk0_mapped;
void *my_mmap(void *addr, size_t len, int prot, int flags, int fd, long off) {
  (void)prot; (void)fd; (void)off;
  rt_assert(addr == 0 && (flags & MAP_ANONYMOUS) && len == sizeof(CHUNK0) && !chunk0_mapped, "first anonymous mapping of the registry arena (growth is not modelled)");
  chunk0_mapped = 1; return &CHUNK0;
}
#endif
struct obj { int v; };
struct obj *OBJ; int A, B;
/* ghost cells: 40+r section-open flag of reader slot r, 44+r section instance counter, 48+u.. snapshot taken by updater u */
#define G_OPEN(r) (40 + (r))
#define G_SEQ(r) (44 + (r))
#define G_SNAP(u, r) (48 + 4 * (u) + (r))
#define NSL 4
/* G_OPEN is the ghost nesting depth of a slot (a signal handler runs on the interrupted thread's slot and may nest inside its
 * section); a new outermost section gets a new instance number */
static inline void cs_begin(void) { uint32_t r = rt_self(); if (rt_gget(G_OPEN(r)) == 0) rt_gset(G_SEQ(r), rt_gget(G_SEQ(r)) + 1); rt_gset(G_OPEN(r), rt_gget(G_OPEN(r)) + 1); }
static inline void cs_end(void) { uint32_t r = rt_self(); rt_gset(G_OPEN(r), rt_gget(G_OPEN(r)) - 1); }
static inline void sync_call(int u) { for (int r = 1; r < NSL; r++) rt_gset(G_SNAP(u, r), rt_gget(G_OPEN(r)) ? rt_gget(G_SEQ(r)) : 0); }
static inline void sync_ret(int u) {
  for (int r = 1; r < NSL; r++) {
    uint64_t s = rt_gget(G_SNAP(u, r));
    if (s) rt_assert(!(rt_gget(G_OPEN(r)) && rt_gget(G_SEQ(r)) == s), "synchronize_rcu returned while a read-side critical section that began before the call is still open");
  }
}
#if FLAVOR == 3
#define ENTER() do { } while (0)                  /* qsbr: registered+online threads are always inside an (implicit) section */
#define LEAVE() do { } while (0)
#else
#define ENTER() rcu_read_lock()
#define LEAVE() rcu_read_unlock()
#endif

void setup(void) { OBJ = (struct obj *)malloc(sizeof(struct obj)); OBJ->v = 7; }
void reg(void) {
#if FLAVOR != 4
  rcu_register_thread();
#else
  urcu_bp_register_thread();                       /* bp: forced early registration (the lazy path is exercised by the C15 bp obligation) */
#endif
#if FLAVOR == 3
  cs_begin();                                      /* online from registration on */
#endif
}
/* reader: one critical section dereferencing the RCU-protected object + the litmus loads */
static inline void section(int nested) {
  ENTER();
#if FLAVOR != 3
  cs_begin();
#endif
  if (nested) { ENTER(); LEAVE(); }
  int b = CMM_LOAD_SHARED(B);
  struct obj *p = rcu_dereference(OBJ);
  int v = p ? CMM_LOAD_SHARED(p->v) : 7;           /* touching a reclaimed object trips the deallocation check */
  int a = CMM_LOAD_SHARED(A);
  rt_assert(v == 7, "reader sees the object intact (never reclaimed under it)");
  rt_assert(!(b == 1 && a == 0), "a reader that sees a post-grace-period store also sees every pre-grace-period store");
#if FLAVOR != 3
  rt_cover(b == 1, "reader ran after the grace period");
#endif
  rt_cover(a == 0, "reader ran before the updater");
  rt_cover(a == 1 && b == 0, "reader section overlaps the grace period");
#if FLAVOR != 3
  cs_end();
#endif
  LEAVE();
}
#if FLAVOR != 3
/* C19: signal handler with a read-side critical section; runs on the interrupted thread's slot */
#if FLAVOR == 4
#define READER_CTR() (URCU_TLS(urcu_bp_reader) ? URCU_TLS(urcu_bp_reader)->ctr : 0)
#define URCU_GP_CTR_NEST_MASK URCU_BP_GP_CTR_NEST_MASK
#else
#define READER_CTR() (URCU_TLS(rcu_reader).ctr)
#endif
void sig_handler(void) {
  unsigned long c0 = READER_CTR(); int on0 = rcu_read_ongoing();
  section(0);
  /* nesting count restored; inside an open section the whole word (incl. the phase snapshot the outer section relies on) is restored;
   * with nesting 0 the stale phase bits carry no meaning and may differ */
  rt_assert((READER_CTR() & URCU_GP_CTR_NEST_MASK) == (c0 & URCU_GP_CTR_NEST_MASK), "signal handler changed the interrupted thread's read-side nesting count");
  if (c0 & URCU_GP_CTR_NEST_MASK) rt_assert(READER_CTR() == c0, "signal handler inside an open section changed the reader word (phase snapshot)");
  rt_assert(rcu_read_ongoing() == on0, "signal handler left rcu_read_ongoing() changed");
  rt_cover(c0 != 0 || on0, "handler interrupted an open read-side section");
  rt_cover(1, "signal handler ran");
}
#endif
/* C15(a): a reader that registers, runs a section, unregisters - twice - while grace periods run */
void reader_dyn(void) {
#if FLAVOR != 4
  rcu_register_thread();
#endif
#if FLAVOR == 3
  cs_begin(); section(0); cs_end(); rcu_unregister_thread();
  rcu_register_thread(); cs_begin(); section(0); cs_end(); rcu_unregister_thread();
#else
  section(0);
#if FLAVOR != 4
  rcu_unregister_thread(); rcu_register_thread();
#endif
  section(0);
#if FLAVOR != 4
  rcu_unregister_thread();
#endif
#endif
  rt_cover(1, "reader registered, ran, unregistered twice");
}
void reader(void) {
  section(NESTED);
#if FLAVOR == 3
  cs_end(); rcu_quiescent_state(); cs_begin();     /* announces a quiescent state: old implicit section ends, a new one begins */
  cs_end(); rcu_thread_offline();
#endif
#if UNREG
  rcu_unregister_thread();
#endif
}
/* updater: unpublish, wait for a grace period, reclaim */
static inline void update(int u) {
  struct obj *p = OBJ;
  CMM_STORE_SHARED(A, 1);
  rcu_assign_pointer(OBJ, NULL);
  sync_call(u);
  synchronize_rcu();
  sync_ret(u);
  CMM_STORE_SHARED(B, 1);
  if (p) { p->v = -1; free(p); }
}
void updater(void) { update(0); }
/* second concurrent caller: only waits (its wait may be merged into the first caller's grace period) */
void updater2(void) { sync_call(1); synchronize_rcu(); sync_ret(1); rt_cover(1, "second synchronize_rcu caller returned"); }
void epilogue(void) {
  rt_assert(B == 1, "updater completed");
#if DYN && FLAVOR <= 2
  rt_assert(cds_list_empty(&registry) && registry.next == &registry && registry.prev == &registry, "after every thread unregistered the registry is an empty well-formed list");
#endif
#if DYN && FLAVOR == 3
  rt_assert(cds_list_empty(&registry) && registry.prev == &registry, "after every thread unregistered the registry is an empty well-formed list");
#endif
}
