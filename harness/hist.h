/* History recording + FIFO/LIFO "bad pattern" oracles (Henzinger/Sezgin/Vafeiadis aspect-oriented linearizability):
 * a queue history is linearizable iff it has none of: a removed value that was never inserted (VFresh), a value
 * removed twice (VRepet), an order violation (VOrd), an "empty" answer while some value is definitely present (VWit).
 * Stamps come from rt_stamp() (invisible, so an operation's interval is as tight as a real execution allows).
 * All records live in ghost cells: recording adds no scheduling point and no buffered store.
 * Insert i and removal record j are compile-time constants at every call site (concrete ghost indices);
 * only the per-value removal cells (banks 0-2) are indexed by the symbolic result of a removal. */
#ifndef HIST_H
#define HIST_H
#include "rt_api.h"
#ifndef H_NN
#define H_NN 4           /* values (nodes); must be <= RT_BANKSZ */
#endif
#ifndef H_ND
#define H_ND 8           /* removal records */
#endif
#define H_NONE (-1)      /* removal returned "empty" */
#define H_WB (-2)        /* removal returned WOULDBLOCK */
#define HG_I(i, k) (3 * (i) + (k))                    /* insert i: call, ret, state(0 none,2 done flag0,3 done flag1) */
#define HG_R(j, k) (3 * H_NN + 3 * (j) + (k))         /* removal j: call, ret, value+3 (0 = record unused) */
#define HG_USER (3 * H_NN + 3 * H_ND)
#define HB_VCALL 0
#define HB_VRET 1
#define HB_VCNT 2
static inline void h_ins_call(int i) { rt_gset(HG_I(i, 0), rt_stamp()); }
static inline void h_ins_ret(int i, int flag) { rt_gset(HG_I(i, 2), 2 + (flag ? 1 : 0)); rt_gset(HG_I(i, 1), rt_stamp()); }
static inline uint32_t h_icall(int i) { return rt_gget(HG_I(i, 0)); }
static inline uint32_t h_iret(int i) { return rt_gget(HG_I(i, 1)); }
static inline int h_idone(int i) { return rt_gget(HG_I(i, 2)) >= 2; }
static inline int h_istarted(int i) { return rt_gget(HG_I(i, 0)) != 0; }
static inline int h_iflag(int i) { return rt_gget(HG_I(i, 2)) == 3; }
static inline uint32_t h_rem_call(void) { return rt_stamp(); }
/* j must be a constant at the call site */
static inline void h_rem_ret(int j, uint32_t call, int v) {
  uint32_t r = rt_stamp();
  rt_gset(HG_R(j, 0), call); rt_gset(HG_R(j, 2), (uint64_t)(v + 3)); rt_gset(HG_R(j, 1), r);
  if (v >= 0 && v < H_NN) { rt_bset(HB_VCNT, v, rt_bget(HB_VCNT, v) + 1); rt_bset(HB_VCALL, v, call); rt_bset(HB_VRET, v, r); }
}
static inline int h_rused(int j) { return rt_gget(HG_R(j, 2)) != 0; }
static inline uint32_t h_rcall(int j) { return rt_gget(HG_R(j, 0)); }
static inline uint32_t h_rret(int j) { return rt_gget(HG_R(j, 1)); }
static inline int h_rval(int j) { return (int)rt_gget(HG_R(j, 2)) - 3; }
static inline int h_removed(int a) { return rt_bget(HB_VCNT, a) != 0; }
static inline uint32_t h_vcall(int a) { return rt_bget(HB_VCALL, a); }
static inline uint32_t h_vret(int a) { return rt_bget(HB_VRET, a); }

static inline void h_check_basic(void) {
  for (int a = 0; a < H_NN; a++) {
    rt_assert(rt_bget(HB_VCNT, a) <= 1, "value removed twice (VRepet)");
    if (h_removed(a)) rt_assert(h_istarted(a) && h_icall(a) < h_vret(a), "removed value was inserted before (VFresh)");
  }
}
static inline void h_check_conservation(void) {
  for (int i = 0; i < H_NN; i++)
    if (h_istarted(i)) rt_assert(h_removed(i), "every inserted value is eventually removed (nothing lost)");
}
/* FIFO: insert(a) returned before insert(b) was called and b removed => a removed, and not strictly after b */
static inline void h_check_fifo(void) {
  for (int a = 0; a < H_NN; a++) for (int b = 0; b < H_NN; b++) {
    if (a == b || !h_idone(a) || !h_istarted(b) || !(h_iret(a) < h_icall(b)) || !h_removed(b)) continue;
    rt_assert(h_removed(a) && h_vcall(a) < h_vret(b), "FIFO order respected (VOrd)");
  }
}
/* LIFO: insert(a) < insert(b) < remove(a) in real time and b's removal... : if push(a) returned before push(b) was called
 * and push(b) returned before pop(a) was called, then b must have been popped, and not strictly after a */
static inline void h_check_lifo(void) {
  for (int a = 0; a < H_NN; a++) for (int b = 0; b < H_NN; b++) {
    if (a == b || !h_idone(a) || !h_idone(b) || !h_removed(a)) continue;
    if (h_iret(a) < h_icall(b) && h_iret(b) < h_vcall(a))
      rt_assert(h_removed(b) && h_vcall(b) < h_vret(a), "LIFO order respected (VOrd)");
  }
}
static inline void h_check_empty_answers(void) {
  for (int j = 0; j < H_ND; j++) {
    if (!h_rused(j) || h_rval(j) != H_NONE) continue;
    for (int a = 0; a < H_NN; a++) {
      if (!h_idone(a) || !(h_iret(a) < h_rcall(j))) continue;
      rt_assert(h_removed(a) && h_vcall(a) < h_rret(j), "empty reported only when the structure can be empty (VWit)");
    }
  }
}
static inline void h_check_wouldblock(void) {
  for (int j = 0; j < H_ND; j++) {
    if (!h_rused(j) || h_rval(j) != H_WB) continue;
    int inflight = 0;
    for (int a = 0; a < H_NN; a++)
      if (h_istarted(a) && h_icall(a) < h_rret(j) && (!h_idone(a) || h_iret(a) > h_rcall(j))) inflight = 1;
    rt_assert(inflight, "WOULDBLOCK only while another operation is in flight");
  }
}
/* is value a definitely present during the whole interval [c, r]? */
static inline int h_def_present(int a, uint32_t c, uint32_t r) {
  if (!h_idone(a) || !(h_iret(a) < c)) return 0;
  return !h_removed(a) || h_vcall(a) > r;
}
/* may value a be present at some instant of [c, r]? */
static inline int h_may_present(int a, uint32_t c, uint32_t r) {
  if (!h_istarted(a) || !(h_icall(a) < r)) return 0;
  return !h_removed(a) || h_vret(a) > c;
}
#endif
