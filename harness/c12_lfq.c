/* C12: cds_lfq_*_rcu (Michael-Scott queue with dummy nodes) FIFO linearizability, dummy reclamation through call_rcu */
#define _LGPL_SOURCE
#include <urcu/rculfqueue.h>
#define H_NN 4
#define H_ND 8
#include "hist.h"

struct cds_lfq_queue_rcu Q;
/* typed static pool behind malloc/free (stub_map): every unwinding copy of make_dummy would otherwise be a separate CBMC heap object.
 * free poisons the entry and checks single ownership; a later use of the poisoned links is a wild dereference that CBMC reports. */
#define NPOOL 5
struct cds_lfq_node_rcu_dummy PL0, PL1, PL2, PL3, PL4;
static inline struct cds_lfq_node_rcu_dummy *PLP(int i) { return i == 0 ? &PL0 : i == 1 ? &PL1 : i == 2 ? &PL2 : i == 3 ? &PL3 : &PL4; }
void *my_malloc(size_t sz) { int k = (int)rt_gget(63); rt_assert(k < NPOOL && sz == sizeof(struct cds_lfq_node_rcu_dummy), "dummy pool large enough"); rt_gset(63, k + 1); return PLP(k); }
void my_free(void *p) {
  int i = p == (void *)&PL0 ? 0 : p == (void *)&PL1 ? 1 : p == (void *)&PL2 ? 2 : p == (void *)&PL3 ? 3 : p == (void *)&PL4 ? 4 : -1;
  rt_assert(i >= 0, "free() of a pointer that malloc() did not return");
  /* a dummy node may still be referenced by concurrent dequeuers/enqueuers (stale head / tail): it is reclaimed only by its call_rcu
   * callback (ghost 60 = 1 while the epilogue runs them, i.e. after every read-side section of the run) or by destroy on a quiescent queue (2) */
  rt_assert(rt_gget(60) != 0, "dummy node freed directly, without waiting for a grace period");
  rt_assert(!((rt_gget(61) >> i) & 1), "double free of a dummy node");
  rt_gset(61, rt_gget(61) | (1u << i));
  struct cds_lfq_node_rcu_dummy *d = PLP(i);
  d->parent.next = (struct cds_lfq_node_rcu *)0x5a5a0; d->parent.dummy = 0x5a; d->q = (struct cds_lfq_queue_rcu *)0x5a5a8;
}
/* separate objects (not arrays): a pointer into an array of structs with a non-constant index costs a byte-level extraction per access */
struct cds_lfq_node_rcu N0, N1, N2, N3;
static inline struct cds_lfq_node_rcu *NP(int i) { return i == 0 ? &N0 : i == 1 ? &N1 : i == 2 ? &N2 : &N3; }
struct rcu_head *PEND[6]; void (*PFN[6])(struct rcu_head *);
/* harness call_rcu: the callback runs after a grace period = in the epilogue, when every (ghost) read-side section has ended.
 * A dummy that the real code frees directly, or touches after handing it over, trips CBMC's deallocated-object checks. */
static void my_call_rcu(struct rcu_head *head, void (*func)(struct rcu_head *)) {
  int k = (int)rt_gget(62); rt_assert(k < 6, "pending callback buffer large enough"); rt_gset(62, k + 1);
  PEND[k] = head; PFN[k] = func;
}
static inline int idx(struct cds_lfq_node_rcu *n) {
  if (n == 0) return H_NONE;
  if (n == &N0) return 0; if (n == &N1) return 1; if (n == &N2) return 2; if (n == &N3) return 3;      /* no loop: thread code has a small per-turn unwinding */
  rt_assert(0, "dequeue returned a pointer that is not a user node (dummy leaked to the user)"); return H_NONE;
}
static inline void enq(int i) { h_ins_call(i); cds_lfq_node_init_rcu(NP(i)); cds_lfq_enqueue_rcu(&Q, NP(i)); h_ins_ret(i, 0); }
static inline int deq(int j) { uint32_t c = h_rem_call(); struct cds_lfq_node_rcu *n = cds_lfq_dequeue_rcu(&Q); int v = idx(n); h_rem_ret(j, c, v); return v; }
void prologue(void) { cds_lfq_init_rcu(&Q, my_call_rcu); }
/* sequential wrappers kept out of line: the epilogue's counted loops and the library's retry loops get different unwinding bounds */
static __attribute__((noinline)) int deq_seq(int j) { return deq(j); }
static __attribute__((noinline)) int destroy_seq(void) { rt_gset(60, 2); int r = cds_lfq_destroy_rcu(&Q); rt_gset(60, 0); return r; }
#if SCEN == 1
void t1(void) { enq(0); enq(2); }
void t2(void) { enq(1); int v = deq(0); rt_cover(v == H_NONE, "a dequeue saw an empty queue"); }
void t3(void) { int a = deq(1); int b = deq(2); rt_cover(a >= 0 && b >= 0, "one thread dequeued two nodes concurrently with the enqueuers"); }
#define NDQ 3
#endif
#if SCEN == 2     /* two threads, each enqueue then dequeue */
void t1(void) { enq(0); int v = deq(0); rt_gset(59, v + 3); }
void t2(void) { enq(1); deq(1); }
#define NDQ 2
#endif
#if SCEN == 3     /* one thread: sequential behaviour of the real code under the same harness (also the reachability baseline) */
void t1(void) { enq(0); enq(1); int a = deq(0); int b = deq(1); int c = deq(2); rt_gset(59, (a == 0 && b == 1 && c == H_NONE) ? 4 : 9); }
#define NDQ 3
#endif
#if SCEN == 4     /* one thread leaves a user node queued: destroy must refuse (head = a user node that is the last node), then drain */
void t1(void) { enq(0); enq(1); int a = deq(0); rt_gset(59, a == 0 ? 4 : 9); }
#define NDQ 1
#endif
void epilogue(void) {
  int left = 0; for (int i = 0; i < H_NN; i++) if (h_istarted(i) && !h_removed(i)) left = 1;
  if (left) rt_assert(destroy_seq() != 0, "destroy refuses a non-empty queue");
  rt_cover(left, "destroy was attempted on a non-empty queue");
  for (int k = 0; k < H_NN + 1; k++) { int v = deq_seq(NDQ + k); if (v == H_NONE) break; rt_assert(k < H_NN, "queue drains"); }
  h_check_basic(); h_check_conservation(); h_check_fifo(); h_check_empty_answers();
  /* grace period over: run the deferred callbacks (frees the retired dummies exactly once) */
  int np = (int)rt_gget(62);
  rt_gset(60, 1);
  for (int k = 0; k < 6; k++) if (k < np) PFN[k](PEND[k]);
  rt_gset(60, 0);
  rt_cover(np >= 1, "a dummy node was retired through call_rcu");
#if SCEN == 2
  rt_cover(rt_gget(59) == 1 + 3, "thread 1 dequeued the node of the other thread");
#endif
#if SCEN == 3
  rt_assert(rt_gget(59) == 4, "single thread: enqueue a, b; dequeue returns a, b, then NULL");
#endif
#if SCEN == 4
  rt_assert(rt_gget(59) == 4, "single thread: enqueue a, b; dequeue returns a");
#endif
  rt_assert(destroy_seq() == 0, "destroy succeeds on an empty queue");
  rt_assert(rt_gget(61) == (1u << rt_gget(63)) - 1, "every dummy node ever allocated has been freed exactly once (retired ones by their callback, the last by destroy)");
}
