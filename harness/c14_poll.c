/* C14: grace-period polling (start_poll_synchronize_rcu / poll_state_synchronize_rcu / worker callback).
 * All three functions run under poll_worker_gp_state.lock, so each is one atomic step; the harness explores every sequence
 * of K steps over {start_poll by one of 3 handle slots, poll, reader begin/end, worker callback fires}.  call_rcu is replaced by a
 * stub with C03's contract: the callback runs once, only after every reader section open at enqueue time has ended. */
#define _LGPL_SOURCE
#define RCU_MB
struct rcu_head;
void urcu_mb_call_rcu(struct rcu_head *head, void (*func)(struct rcu_head *head)) __attribute__((noinline));
#include "urcu.c"
#include "rt_api.h"
#ifndef KSTEPS
#define KSTEPS 8
#endif
#define NH 3
#define NR 2
struct urcu_gp_poll_state HND[NH]; int taken[NH], was_true[NH], fires[NH];
uint32_t hsnap[NH][NR];                     /* per handle: instance id of each reader section open at start_poll (0 = none) */
int ropen[NR]; uint32_t rseq[NR];
struct rcu_head *pend_head; void (*pend_fn)(struct rcu_head *); uint32_t psnap[NR]; int pending;

void my_call_rcu(struct rcu_head *head, void (*func)(struct rcu_head *)) {
  rt_assert(!pending, "the polling worker callback is queued at most once at a time (same rcu_head)");
  pend_head = head; pend_fn = func; pending = 1;
  for (int r = 0; r < NR; r++) psnap[r] = ropen[r] ? rseq[r] : 0;
}
static inline int ended(uint32_t snap, int r) { return snap == 0 || !ropen[r] || rseq[r] != snap; }
void seq(void) {
  uint64_t x = rt_nondet_u64();             /* arbitrary starting id: covers counter wrap-around */
#ifdef WRAP_ONLY
  rt_assume(x + 4 < 4 || (x >= 0x7ffffffffffffffcULL && x <= 0x8000000000000003ULL));   /* ids that wrap (unsigned or signed) within the run */
#endif
  poll_worker_gp_state.current_state.grace_period_id = x;
  poll_worker_gp_state.latest_target.grace_period_id = x;
  for (int k = 0; k < KSTEPS; k++) {
    uint32_t op = rt_nondet_u32(); rt_assume(op < 5);
    uint32_t h = rt_nondet_u32(); rt_assume(h < NH);
    uint32_t r = rt_nondet_u32(); rt_assume(r < NR);
    if (op == 0 && !taken[h]) {
      HND[h] = start_poll_synchronize_rcu(); taken[h] = 1; fires[h] = 0;
      for (int i = 0; i < NR; i++) hsnap[h][i] = ropen[i] ? rseq[i] : 0;
      rt_cover(pending && poll_worker_gp_state.latest_target.grace_period_id != poll_worker_gp_state.current_state.grace_period_id,
               "handle taken while a worker grace period was already in flight");
    } else if (op == 1 && taken[h]) {
      int t = poll_state_synchronize_rcu(HND[h]);
      if (t) { for (int i = 0; i < NR; i++) rt_assert(ended(hsnap[h][i], i), "poll returned true although a read-side critical section in progress at start_poll has not ended");
               rt_cover(1, "a poll returned true"); }
      else { rt_assert(!was_true[h], "once true, polling a handle stays true");
             rt_assert(fires[h] < 2, "a handle polls true after at most two worker grace periods"); }
      if (t) was_true[h] = 1;
    } else if (op == 2 && !ropen[r]) { rseq[r]++; ropen[r] = 1; }
    else if (op == 3 && ropen[r]) { ropen[r] = 0; }
    else if (op == 4 && pending) {
      int gp = 1; for (int i = 0; i < NR; i++) if (!ended(psnap[i], i)) gp = 0;
      if (gp) { pending = 0; for (int i = 0; i < NH; i++) if (taken[i]) fires[i]++; pend_fn(pend_head); rt_cover(pending, "worker re-queued itself"); }
    }
  }
  /* eventually: let every reader leave and the worker run: all handles must poll true after at most two firings */
  for (int i = 0; i < NR; i++) ropen[i] = 0;
  for (int n = 0; n < 2; n++) if (pending) { pending = 0; pend_fn(pend_head); }
  for (int i = 0; i < NH; i++) if (taken[i]) rt_assert(poll_state_synchronize_rcu(HND[i]), "repeated polling eventually returns true");
}
