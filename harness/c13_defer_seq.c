/* C13 (a)/(b): defer_rcu encoding/decoding for arbitrary (function, argument) bit patterns, ring wrap, full-queue self flush,
 * barriers, and the register/unregister lifecycle.  Sequential (plain mode).  The real src/urcu.c (mb flavor) is included so that the
 * static functions and the TLS queue are reachable; the grace period itself is C01's business: synchronize_rcu is replaced by a stub
 * that advances a ghost grace-period counter.  The reclaimer thread start/stop is covered by the concurrent obligation. */
#define _LGPL_SOURCE
#define RCU_MB
/* keep the functions that the obligation replaces out of clang's inliner */
static void start_defer_thread(void) __attribute__((noinline));
static void stop_defer_thread(void) __attribute__((noinline));
void urcu_mb_synchronize_rcu(void) __attribute__((noinline));
#if SCEN == 3
static void wait_defer(void) __attribute__((noinline, used));
#endif
#include "urcu.c"
#include "rt_api.h"

#ifndef KSTEPS
#define KSTEPS 10
#endif
uint64_t QF[KSTEPS], QP[KSTEPS], QGP[KSTEPS];
unsigned nq, nrun; uint64_t gp;

void my_sync(void) { gp++; }
void my_noop(void) { }
/* every callback invocation fct(p) of rcu_defer_barrier_queue lands here with the decoded function and argument */
void cb_log(void (*fct)(void *), void *p) {
  rt_assert(nrun < nq, "a callback is invoked only if it was queued (no extra / duplicate invocation)");
  rt_assert((uint64_t)fct == QF[nrun], "callbacks run in queue order with exactly the function that was queued");
  rt_assert((uint64_t)p == QP[nrun], "callbacks run in queue order with exactly the argument that was queued");
  rt_assert(gp > QGP[nrun], "a callback runs only after a grace period that started after it was queued");
  nrun++;
}
static inline void q(uint64_t f, uint64_t p) {
  rt_assert(nq < KSTEPS, "harness buffer"); QF[nq] = f; QP[nq] = p; QGP[nq] = gp; nq++;
  defer_rcu((void (*)(void *))f, (void *)p);
}
static inline uint64_t pick_fct(uint64_t prev) {
  /* function "address": any 64-bit pattern: same as before, low bit set, equal to the marker, or arbitrary */
  uint64_t f = rt_nondet_u64();
  rt_cover(f == prev, "function repeated"); rt_cover(f & 1, "function with low bit set"); rt_cover(f == ~1UL, "function equal to the marker value");
  return f;
}
static inline uint64_t pick_arg(void) {
  uint64_t p = rt_nondet_u64();
  rt_cover(p & 1, "argument with low bit set"); rt_cover(p == ~1UL, "argument equal to the marker value");
  return p;
}
#if SCEN == 1
/* (a) symbolic operation sequence */
void seq(void) {
  rt_assert(rcu_defer_register_thread() == 0, "register");
  uint64_t prev = 0;
  for (int k = 0; k < KSTEPS; k++) {
    uint32_t op = rt_nondet_u32(); rt_assume(op < 8);
    if (op == 0) { rcu_defer_barrier_thread(); rt_assert(nrun == nq, "rcu_defer_barrier_thread returns only after all calls queued by this thread have run"); }
    else if (op == 1) { rcu_defer_barrier(); rt_assert(nrun == nq, "rcu_defer_barrier returns only after all queued calls have run"); }
    else { uint64_t f = pick_fct(prev); q(f, pick_arg()); prev = f; }
    rt_assert(URCU_TLS(defer_queue).head - URCU_TLS(defer_queue).tail <= DEFER_QUEUE_SIZE, "ring never holds more than its capacity");
  }
  rt_cover(nq >= DEFER_QUEUE_SIZE, "more entries queued than the ring holds (wrap-around)");
  rcu_defer_unregister_thread();
  rt_assert(nrun == nq, "rcu_defer_unregister_thread returns only after all queued calls have run");
}
#endif
#if SCEN == 2
/* (b) lifecycle: a thread may register again after unregistering */
void seq(void) {
  rt_assert(rcu_defer_register_thread() == 0, "register");
  q(pick_fct(0), pick_arg());
  uint32_t how = rt_nondet_u32(); rt_assume(how < 3);
  if (how == 0) rcu_defer_barrier();               /* also what the background reclaimer does */
  else if (how == 1) rcu_defer_barrier_thread();
  rcu_defer_unregister_thread();
  rt_assert(nrun == nq, "unregister flushed the queue");
  rt_assert(rcu_defer_register_thread() == 0, "register again");
  q(pick_fct(0), pick_arg()); q(pick_fct(1), pick_arg());
  rcu_defer_unregister_thread();
  rt_assert(nrun == nq, "second unregister flushed the queue");
  rt_cover(how == 0, "rcu_defer_barrier() before the first unregister");
}
#endif
#if SCEN == 3
/* (c) the background reclaimer's parking decision.  One pass of thr_defer is wait_defer() followed by rcu_defer_barrier(); the thread
 * itself is not started (start_defer_thread is a stub), the harness runs its passes between the operations of the queuing thread.
 * A pass is only run while calls are pending: then wait_defer() must not park (a futex wait with nobody left to wake it is reported
 * by the runtime as "sequential code blocks forever"), and the pass must run everything queued so far. */
void my_exit(void *r) { (void)r; rt_assert(0, "reclaimer exits although defer_thread_stop was never set"); }
void seq(void) {
  rt_assert(rcu_defer_register_thread() == 0, "register");
  uint64_t prev = 0; unsigned passes = 0;
  for (int k = 0; k < KSTEPS; k++) {
    uint32_t op = rt_nondet_u32(); rt_assume(op < 4);
    if (op == 0) { rcu_defer_barrier_thread(); rt_assert(nrun == nq, "rcu_defer_barrier_thread returns only after all calls queued by this thread have run"); }
    else if (op == 1) {
      if (nrun < nq) {
        wait_defer();
        rt_assert(uatomic_read(&defer_thread_futex) == 0, "a reclaimer that does not park leaves its futex at 0");
        rcu_defer_barrier();
        rt_assert(nrun == nq, "a reclaimer pass that found pending calls runs all of them");
        passes++;
      }
    }
    else { uint64_t f = pick_fct(prev); q(f, pick_arg()); prev = f; }
  }
  rt_cover(passes >= 2, "two reclaimer passes with pending calls");
  rt_cover(passes >= 1 && URCU_TLS(defer_queue).last_head != 0 && nq > nrun, "calls pending after an earlier reclaimer pass (last_head behind head)");
  rcu_defer_unregister_thread();
  rt_assert(nrun == nq, "rcu_defer_unregister_thread returns only after all queued calls have run");
}
#endif
