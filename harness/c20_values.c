/* C20(a): value semantics of every uatomic operation, per width and signedness.
 * Memory image IMG (16 bytes, symbolic), symbolic aligned slot, symbolic operands; the reference
 * image REF gets the documented sequential result written with plain C; afterwards the whole image must be
 * equal (=> neighbouring bytes untouched) and the returned value must be the documented one. */
#define _LGPL_SOURCE
#include <stdint.h>
#include <urcu/uatomic.h>
#include "rt_api.h"

uint64_t IMG[2], REF[2];
static inline unsigned pick(unsigned n) { unsigned i = rt_nondet_u32(); rt_assume(i < n); return i; }
static inline void fill(void) { IMG[0] = REF[0] = rt_nondet_u64(); IMG[1] = REF[1] = rt_nondet_u64(); }
static inline void same(void) { rt_assert(IMG[0] == REF[0] && IMG[1] == REF[1], "memory image equals reference (operand updated as documented, neighbours untouched)"); }

#define SLOT(T) unsigned i_ = pick(16 / sizeof(T)); T *p = ((T *)IMG) + i_; T *q = ((T *)REF) + i_; T old = *q

#define DEF(T, U, S) \
void set_##S(void) { fill(); SLOT(T); T v = (T)rt_nondet_u64(); (void)old; uatomic_set(p, v); *q = v; same(); } \
void read_##S(void) { fill(); SLOT(T); T r = uatomic_read(p); rt_assert(r == old, "uatomic_read returns the stored value"); same(); } \
void xchg_##S(void) { fill(); SLOT(T); T v = (T)rt_nondet_u64(); T r = uatomic_xchg(p, v); *q = v; \
  rt_assert(r == old, "uatomic_xchg returns the previous value"); same(); } \
void cmpxchg_##S(void) { fill(); SLOT(T); T e = (T)rt_nondet_u64(); T n = (T)rt_nondet_u64(); T r = uatomic_cmpxchg(p, e, n); \
  if (old == e) *q = n; rt_assert(r == old, "uatomic_cmpxchg returns the previous value"); \
  rt_cover(old == e, "cmpxchg success path"); rt_cover(old != e, "cmpxchg failure path"); same(); } \
void add_return_##S(void) { fill(); SLOT(T); T v = (T)rt_nondet_u64(); T r = uatomic_add_return(p, v); *q = (T)((U)old + (U)v); \
  rt_assert(r == *q, "uatomic_add_return returns the new value truncated to the operand width"); same(); } \
void sub_return_##S(void) { fill(); SLOT(T); T v = (T)rt_nondet_u64(); T r = uatomic_sub_return(p, v); *q = (T)((U)old - (U)v); \
  rt_assert(r == *q, "uatomic_sub_return returns the new value truncated to the operand width"); same(); } \
void add_##S(void) { fill(); SLOT(T); T v = (T)rt_nondet_u64(); uatomic_add(p, v); *q = (T)((U)old + (U)v); same(); } \
void sub_##S(void) { fill(); SLOT(T); T v = (T)rt_nondet_u64(); uatomic_sub(p, v); *q = (T)((U)old - (U)v); same(); } \
void inc_##S(void) { fill(); SLOT(T); uatomic_inc(p); *q = (T)((U)old + 1); same(); } \
void dec_##S(void) { fill(); SLOT(T); uatomic_dec(p); *q = (T)((U)old - 1); same(); } \
void and_##S(void) { fill(); SLOT(T); T v = (T)rt_nondet_u64(); uatomic_and(p, v); *q = (T)((U)old & (U)v); same(); } \
void or_##S(void) { fill(); SLOT(T); T v = (T)rt_nondet_u64(); uatomic_or(p, v); *q = (T)((U)old | (U)v); same(); } \
/* operand given as a wider (long) value: exercises the sign-keeping casts and the truncation */ \
void addl_return_##S(void) { fill(); SLOT(T); long v = (long)rt_nondet_u64(); T r = uatomic_add_return(p, v); *q = (T)((U)old + (U)v); \
  rt_assert(r == *q, "uatomic_add_return(long operand) returns the new value truncated to the operand width"); same(); } \
void subl_return_##S(void) { fill(); SLOT(T); long v = (long)rt_nondet_u64(); T r = uatomic_sub_return(p, v); *q = (T)((U)old - (U)v); \
  rt_assert(r == *q, "uatomic_sub_return(long operand) returns the new value truncated to the operand width"); same(); }

/* operand of a different C type than the target (unsigned int / int): the documented semantics are those of `*addr op= v`,
 * i.e. v converted to the target type (value-preserving zero- or sign-extension, then truncation) */
#define DEFX(T, U, S) \
void addu_return_##S(void) { fill(); SLOT(T); unsigned int v = rt_nondet_u32(); T r = uatomic_add_return(p, v); *q = (T)((U)old + (U)(T)v); \
  rt_assert(r == *q, "uatomic_add_return(unsigned int operand)"); same(); } \
void subu_return_##S(void) { fill(); SLOT(T); unsigned int v = rt_nondet_u32(); T r = uatomic_sub_return(p, v); *q = (T)((U)old - (U)(T)v); \
  rt_assert(r == *q, "uatomic_sub_return(unsigned int operand)"); same(); } \
void addi_return_##S(void) { fill(); SLOT(T); int v = (int)rt_nondet_u32(); T r = uatomic_add_return(p, v); *q = (T)((U)old + (U)(T)v); \
  rt_assert(r == *q, "uatomic_add_return(int operand)"); same(); } \
void subi_return_##S(void) { fill(); SLOT(T); int v = (int)rt_nondet_u32(); T r = uatomic_sub_return(p, v); *q = (T)((U)old - (U)(T)v); \
  rt_assert(r == *q, "uatomic_sub_return(int operand)"); same(); } \
void addu_##S(void) { fill(); SLOT(T); unsigned int v = rt_nondet_u32(); uatomic_add(p, v); *q = (T)((U)old + (U)(T)v); same(); } \
void subu_##S(void) { fill(); SLOT(T); unsigned int v = rt_nondet_u32(); uatomic_sub(p, v); *q = (T)((U)old - (U)(T)v); same(); } \
void subi_##S(void) { fill(); SLOT(T); int v = (int)rt_nondet_u32(); uatomic_sub(p, v); *q = (T)((U)old - (U)(T)v); same(); } \
void xchgi_##S(void) { fill(); SLOT(T); int v = (int)rt_nondet_u32(); T r = uatomic_xchg(p, v); *q = (T)v; rt_assert(r == old, "uatomic_xchg(int operand)"); same(); } \
void cmpxchgi_##S(void) { fill(); SLOT(T); int e = (int)rt_nondet_u32(); int n = (int)rt_nondet_u32(); T r = uatomic_cmpxchg(p, e, n); \
  if (old == (T)e) *q = (T)n; rt_assert(r == old, "uatomic_cmpxchg(int operands)"); same(); }

DEF(uint8_t, uint8_t, u8)
DEF(int8_t, uint8_t, s8)
DEF(uint16_t, uint16_t, u16)
DEF(int16_t, uint16_t, s16)
DEF(uint32_t, uint32_t, u32)
DEF(int32_t, uint32_t, s32)
DEF(uint64_t, uint64_t, u64)
DEF(int64_t, uint64_t, s64)
DEFX(uint8_t, uint8_t, u8)
DEFX(int8_t, uint8_t, s8)
DEFX(uint16_t, uint16_t, u16)
DEFX(int16_t, uint16_t, s16)
DEFX(uint32_t, uint32_t, u32)
DEFX(int32_t, uint32_t, s32)
DEFX(uint64_t, uint64_t, u64)
DEFX(int64_t, uint64_t, s64)

#define ALL(op) void all_##op(void) { op##_u8(); op##_s8(); op##_u16(); op##_s16(); op##_u32(); op##_s32(); op##_u64(); op##_s64(); }
ALL(set) ALL(read) ALL(xchg) ALL(cmpxchg) ALL(add_return) ALL(sub_return) ALL(add) ALL(sub) ALL(inc) ALL(dec) ALL(and) ALL(or)
ALL(addl_return) ALL(subl_return)
ALL(addu_return) ALL(subu_return) ALL(addi_return) ALL(subi_return) ALL(addu) ALL(subu) ALL(subi) ALL(xchgi) ALL(cmpxchgi)
