/* C11: cds_wfs / cds_lfs LIFO linearizability.  -DKIND=0 wfstack, 1 lfstack; -DSCEN=n; -DPOP=n flavour */
#define _LGPL_SOURCE
#include <urcu/wfstack.h>
#include <urcu/lfstack.h>
#define H_NN 4
#define H_ND 8
#include "hist.h"
#ifndef POP
#define POP 0
#endif
#if KIND == 0
struct cds_wfs_stack S;
struct cds_wfs_node N[H_NN];
typedef struct cds_wfs_node node_t;
#define WB CDS_WFS_WOULDBLOCK
#else
struct cds_lfs_stack S;
struct cds_lfs_node N[H_NN];
typedef struct cds_lfs_node node_t;
#define WB ((node_t *)-1)
#endif
static inline int idx(node_t *n) {
  if (n == 0) return H_NONE;
  if (n == WB) return H_WB;
  for (int i = 0; i < H_NN; i++) if (n == &N[i]) return i;
  rt_assert(0, "pop returned a pointer that is not a pushed node"); return H_NONE;
}
static inline void push(int i) {
  h_ins_call(i);
#if KIND == 0
  cds_wfs_node_init(&N[i]); int r = cds_wfs_push(&S, &N[i]);
#else
  cds_lfs_node_init(&N[i]); int r = cds_lfs_push(&S, &N[i]);
#endif
  h_ins_ret(i, r);
}
static inline int pop(int kind, int j) {
  uint32_t c = h_rem_call(); node_t *n; int st = 0;
#if KIND == 0
  switch (kind) {
  case 0: n = __cds_wfs_pop_blocking(&S); break;
  case 1: n = __cds_wfs_pop_nonblocking(&S); break;
  case 2: n = __cds_wfs_pop_with_state_blocking(&S, &st); break;
  case 3: n = __cds_wfs_pop_with_state_nonblocking(&S, &st); break;
  default: n = cds_wfs_pop_blocking(&S); break;
  }
  if ((kind == 2 || kind == 3) && n && n != WB) rt_gset(HG_USER + 8 + j, (st & CDS_WFS_STATE_LAST) ? 1 : 2);
#else
  switch (kind) {
  case 0: n = __cds_lfs_pop(&S); break;
  default: n = cds_lfs_pop_blocking(&S); break;
  }
#endif
  int v = idx(n); h_rem_ret(j, c, v); return v;
}
/* pop_all + iterate: every node of the returned list is removed during [call, ret] of the pop_all; list order = LIFO */
static inline int pop_all(int locked, int j0) {
  uint32_t c = h_rem_call(); int k = 0; int prev = -1;
#if KIND == 0
  struct cds_wfs_head *h = locked ? cds_wfs_pop_all_blocking(&S) : __cds_wfs_pop_all(&S);
  uint32_t r = rt_stamp();
  struct cds_wfs_node *n;
  cds_wfs_for_each_blocking(h, n) {
#else
  struct cds_lfs_head *h = locked ? cds_lfs_pop_all_blocking(&S) : __cds_lfs_pop_all(&S);
  uint32_t r = rt_stamp();
  struct cds_lfs_node *n;
  cds_lfs_for_each(h, n) {
#endif
    int v = idx(n);
    rt_assert(v >= 0 && k < H_NN, "pop_all list is a finite list of pushed nodes");
    /* record as removed during the pop_all call itself */
    rt_gset(HG_R(j0 + k, 0), c); rt_gset(HG_R(j0 + k, 2), (uint64_t)(v + 3)); rt_gset(HG_R(j0 + k, 1), r);
    rt_bset(HB_VCNT, v, rt_bget(HB_VCNT, v) + 1); rt_bset(HB_VCALL, v, c); rt_bset(HB_VRET, v, r);
    /* list order: a node pushed strictly before another one comes later in the list */
    if (prev >= 0) rt_assert(!(h_idone(prev) && h_iret(prev) < h_icall(v)), "pop_all list is in LIFO order");
    prev = v; k++;
  }
  /* the stack was empty right after the exchange: acts as an "empty" answer over the same interval */
  rt_gset(HG_R(j0 + k, 0), c); rt_gset(HG_R(j0 + k, 2), (uint64_t)(H_NONE + 3)); rt_gset(HG_R(j0 + k, 1), r);
  return k;
}
#if KIND == 0
/* pop_all + NON-BLOCKING iteration (cds_wfs_first / cds_wfs_next_nonblocking): a WOULDBLOCK answer is retried (busy-wait hint), it never ends
 * the walk: every node of the popped list is still visited exactly once, in LIFO order */
static inline int pop_all_nb(int j0) {
  uint32_t c = h_rem_call(); int k = 0; int prev = -1; int wb = 0;
  struct cds_wfs_head *h = __cds_wfs_pop_all(&S);
  uint32_t r = rt_stamp();
  struct cds_wfs_node *n = cds_wfs_first(h);
  while (n != 0) {
    int v = idx(n);
    rt_assert(v >= 0 && k < H_NN, "pop_all list is a finite list of pushed nodes");
    rt_gset(HG_R(j0 + k, 0), c); rt_gset(HG_R(j0 + k, 2), (uint64_t)(v + 3)); rt_gset(HG_R(j0 + k, 1), r);
    rt_bset(HB_VCNT, v, rt_bget(HB_VCNT, v) + 1); rt_bset(HB_VCALL, v, c); rt_bset(HB_VRET, v, r);
    if (prev >= 0) rt_assert(!(h_idone(prev) && h_iret(prev) < h_icall(v)), "pop_all list is in LIFO order");
    prev = v; k++;
    struct cds_wfs_node *nx = cds_wfs_next_nonblocking(n);
    while (nx == CDS_WFS_WOULDBLOCK) {
      /* legal only while the push of this node is between its head exchange and its next-pointer store */
      rt_assert(!h_idone(v), "next_nonblocking reports WOULDBLOCK only while the push of the node it stands on is in flight");
      wb = 1; caa_cpu_relax(); nx = cds_wfs_next_nonblocking(n);
    }
    n = nx;
  }
  rt_gset(HG_USER + 20, wb);
  rt_gset(HG_R(j0 + k, 0), c); rt_gset(HG_R(j0 + k, 2), (uint64_t)(H_NONE + 3)); rt_gset(HG_R(j0 + k, 1), r);
  return k;
}
#endif
static inline void drain(int j0) {
  for (int k = 0; k < H_NN + 1; k++) { int v = pop(0, j0 + k); if (v == H_NONE) return; }
  rt_assert(0, "stack drains within the number of nodes ever pushed");
}
static inline void all_checks(void) {
  h_check_basic(); h_check_conservation(); h_check_lifo(); h_check_empty_answers(); h_check_wouldblock();
#if KIND == 0 && (POP == 2 || POP == 3)
  for (int j = 0; j < H_ND; j++) {
    uint64_t fl = rt_gget(HG_USER + 8 + j); int v = h_rval(j);
    if (!fl) continue;
    rt_cover(fl == 1, "pop reported STATE_LAST");
    rt_cover(fl == 2, "pop without STATE_LAST");
    if (fl == 1) {
      for (int a = 0; a < H_NN; a++) if (a != v) rt_assert(!h_def_present(a, h_rcall(j), h_rret(j)), "STATE_LAST only when the popped node was the last one");
    } else {
      /* not LAST: when v was popped some node c was below it: c's push can have taken effect before v's push did, and c was
       * not yet removed when this pop was called */
      int below = 0;
      for (int c = 0; c < H_NN; c++)
        if (c != v && h_istarted(c) && h_icall(c) < h_iret(v) && (!h_removed(c) || h_vret(c) > h_rcall(j))) below = 1;
      rt_assert(below, "a pop that does not report STATE_LAST left another node on the stack");
    }
  }
  /* push reporting "was empty": no node whose push completed before can still be (definitely) on the stack - and conversely the
   * node that a LAST pop removed and a push that saw an empty stack agree (checked through the clauses above and below) */
#endif
  for (int b = 0; b < H_NN; b++) {       /* push's "was non-empty" result */
    if (!h_idone(b)) continue;
    int may = 0, def = 0;
    /* "non-empty" means some node a lies BELOW b once b is pushed: a can have been on the stack during the push, and (LIFO) a is not removed
     * strictly before b is (same pop_all = same interval, which is not strictly before) */
    for (int a = 0; a < H_NN; a++) if (a != b) {
      may |= h_may_present(a, h_icall(b), h_iret(b)) && !(h_removed(a) && h_removed(b) && h_vret(a) < h_vcall(b));
      def |= h_def_present(a, h_icall(b), h_iret(b)); }
    if (h_iflag(b)) rt_assert(may, "push reports non-empty only if another node can be below it on the stack");
    else rt_assert(!def, "push reports empty only if no other node is definitely on the stack");
  }
}
void prologue(void) {
#if KIND == 0
  cds_wfs_init(&S);
#else
  cds_lfs_init(&S);
#endif
}
void p1(void) { push(0); push(2); }
void p2(void) { push(1); }
#if SCEN == 1      /* single consumer: two pops */
void c1(void) { int a = pop(POP, 0); int b = pop(POP, 1);
  rt_cover(a >= 0 && b >= 0, "consumer popped two nodes concurrently with the pushers"); rt_cover(a == H_NONE, "consumer saw an empty stack"); }
void epilogue(void) { drain(2); all_checks(); }
#endif
#if SCEN == 2      /* single consumer: pop, then pop_all + iteration racing incomplete pushes */
void c1(void) { pop(POP, 0); int k = pop_all(0, 1); rt_cover(k == 2, "pop_all returned two nodes"); rt_cover(k == 0, "pop_all returned an empty list"); }
void epilogue(void) { drain(5); all_checks(); }
#endif
#if SCEN == 3      /* two consumers synchronised by the stack mutex: pop vs pop_all */
void c1(void) { pop(4, 0); }
void c2(void) { int k = pop_all(1, 1); rt_cover(k >= 2, "locked pop_all returned at least two nodes"); }
void epilogue(void) { drain(5); all_checks(); }
#endif
#if SCEN == 4      /* empty() observer */
void c1(void) { pop(POP, 0); pop(POP, 1); }
void c2(void) {
  for (int k = 0; k < 2; k++) {
    uint32_t c = rt_stamp();
#if KIND == 0
    int e = cds_wfs_empty(&S);
#else
    int e = cds_lfs_empty(&S);
#endif
    uint32_t r = rt_stamp();
    rt_gset(HG_USER + 3 * k, c); rt_gset(HG_USER + 3 * k + 1, r); rt_gset(HG_USER + 3 * k + 2, e + 1);
  }
}
void epilogue(void) {
  drain(2); all_checks();
  for (int k = 0; k < 2; k++) {
    uint32_t c = rt_gget(HG_USER + 3 * k), r = rt_gget(HG_USER + 3 * k + 1); int e = (int)rt_gget(HG_USER + 3 * k + 2) - 1;
    int may = 0, def = 0;
    for (int a = 0; a < H_NN; a++) { may |= h_may_present(a, c, r); def |= h_def_present(a, c, r); }
    if (e) rt_assert(!def, "empty() true only if no node is definitely on the stack"); else rt_assert(may, "empty() false only if some node can be on the stack");
    rt_cover(e == 0, "empty() observed a non-empty stack");
  }
}
#endif
#if SCEN == 5      /* lfstack ABA: popper inside a (ghost) read-side section; recycler pops two nodes and pushes the first back.
                      GP=1: the recycler waits for the grace period (ghost cell 60 == 0: no reader section open) before re-pushing;
                      GP=0 (twin): no wait - corruption must be reachable, which shows the oracle can see ABA */
void pro5(void) { cds_lfs_init(&S); push(0); push(1); push(2); }     /* stack: 2,1,0 */
void c1(void) { rt_gset(60, 1); pop(0, 0); rt_gset(60, 0); }
void c2(void) {
  int a = pop(0, 1); int b = pop(0, 2);
  if (a >= 0) {
#if GP
    rt_wait_eq(60, 0);
#endif
    /* recycle node a: it is a new value (index 3) living in the same memory */
    h_ins_call(3); cds_lfs_node_init(&N[a]); int r = cds_lfs_push(&S, &N[a]); h_ins_ret(3, r); rt_gset(61, a + 1);
  }
  (void)b;
}
void epi5(void) {
  /* drain; the recycled node reports under its new identity 3 */
  int alias = (int)rt_gget(61) - 1; int bad = 0;
  for (int k = 0; k < H_NN + 1; k++) {
    uint32_t c = h_rem_call(); node_t *n = __cds_lfs_pop(&S); int v = idx(n);
    if (v >= 0 && v == alias) v = 3;
    h_rem_ret(3 + k, c, v);
    if (v == H_NONE) break;
    if (k == H_NN) bad = 1;
  }
#if GP
  rt_assert(!bad, "stack drains"); h_check_basic(); h_check_conservation();
#else
  int lost = 0; for (int i = 0; i < H_NN; i++) if (h_istarted(i) && !h_removed(i)) lost = 1;
  for (int a = 0; a < H_NN; a++) if (rt_bget(HB_VCNT, a) > 1) lost = 1;
  rt_cover(lost || bad, "ABA corruption reachable when nodes are recycled without a grace period");
#endif
}
#endif
#if SCEN == 7      /* lfstack, mutex-protected scheme: locked pop vs locked pop_all followed by an immediate re-push of the former top node
                      (legal under the mutex scheme: no grace period needed) */
void pro7(void) { cds_lfs_init(&S); push(0); push(1); push(2); }     /* stack: 2,1,0 */
void c1(void) { pop(4, 0); }
void c2(void) {
  uint32_t c = h_rem_call();
  struct cds_lfs_head *h = cds_lfs_pop_all_blocking(&S);
  uint32_t r = rt_stamp();
  struct cds_lfs_node *n, *first = 0; int k = 0;
  cds_lfs_for_each(h, n) {
    int v = idx(n); rt_assert(v >= 0 && k < H_NN, "pop_all list is a finite list of pushed nodes");
    if (!first) first = n;
    else { rt_gset(HG_R(1 + k, 0), c); rt_gset(HG_R(1 + k, 2), (uint64_t)(v + 3)); rt_gset(HG_R(1 + k, 1), r);
           rt_bset(HB_VCNT, v, rt_bget(HB_VCNT, v) + 1); rt_bset(HB_VCALL, v, c); rt_bset(HB_VRET, v, r); }
    k++;
  }
  if (first) { cds_lfs_node_init(first); cds_lfs_push(&S, first); rt_cover(1, "former top node pushed back right after pop_all"); }   /* same identity: it simply stays in the stack */
}
void epi7(void) {
  int bad = 0;
  for (int k = 0; k < H_NN + 1; k++) {
    uint32_t c = h_rem_call(); node_t *n = __cds_lfs_pop(&S); int v = idx(n);
    h_rem_ret(4 + (k < 4 ? k : 3), c, v);
    if (v == H_NONE) break;
    if (k == H_NN) bad = 1;
  }
  rt_assert(!bad, "stack drains"); h_check_basic(); h_check_conservation();
}
#endif
#if SCEN == 8      /* wfstack: pop_all + non-blocking iteration racing incomplete pushes */
void c1(void) { int k = pop_all_nb(0); rt_cover(k == 3, "non-blocking walk visited three nodes"); }
void epilogue(void) { rt_cover(rt_gget(HG_USER + 20) == 1, "non-blocking iteration reported WOULDBLOCK"); drain(5); all_checks(); }
#endif
#if SCEN == 9      /* progress: pop_all, then first / next_nonblocking up to the end of the list or the first WOULDBLOCK */
void c1(void) {
  struct cds_wfs_head *h = __cds_wfs_pop_all(&S);
  struct cds_wfs_node *n = cds_wfs_first(h); int k = 0;
  if (n) { n = cds_wfs_next_nonblocking(n); k++; }
  if (n && n != CDS_WFS_WOULDBLOCK) { n = cds_wfs_next_nonblocking(n); k++; }
  if (n && n != CDS_WFS_WOULDBLOCK) { n = cds_wfs_next_nonblocking(n); k++; }
  rt_gset(HG_USER, k + 1);
}
void epilogue(void) { }
#endif
#if SCEN == 6      /* progress: pop_all alone (no iteration) */
void c1(void) {
#if KIND == 0
  struct cds_wfs_head *h = __cds_wfs_pop_all(&S);
#else
  struct cds_lfs_head *h = __cds_lfs_pop_all(&S);
#endif
  rt_gset(HG_USER, h != 0);
}
void epilogue(void) { }
#endif
