#!/bin/sh
# offline setup: nothing to download or build ahead of time; encodings are regenerated from /repo on every check run
set -e
cd "$(dirname "$0")"
for t in clang-14 cbmc gcc python3; do command -v $t >/dev/null || { echo "missing $t"; exit 1; }; done
python3 -m compileall -q irseq props check.py tools >/dev/null
test -f /repo/include/urcu/config.h || { echo "/repo is not configured (include/urcu/config.h missing)"; exit 1; }
echo setup ok
